#!/bin/sh
# tools/scratch.sh <patch> <command…>: run a command with NSA_REPO pointing at a scratch copy of /repo with the patch applied
set -e
P="$(realpath "$1")"
S=/tmp/nsa-dbg; rm -rf $S; mkdir -p $S/repo
rsync -a --exclude target --exclude .git /repo/ $S/repo/
(cd $S/repo && patch -p1 -s --no-backup-if-mismatch -i "$P")
shift
NSA_REPO=$S/repo NSA_EVIDENCE_DIR=$S/evidence NSA_REPLAY_DIR=$S/replay "$@" || true
rm -rf $S
