#!/usr/bin/env python3
"""tools/mutant.py <patch>... [-- <Cnn>...]   apply each patch to a scratch copy of /repo (outside /repo and
/verif), run the named property checks against the copy (NSA_REPO), print a one-line verdict per patch and
property, remove the copy.  `-R` applies the patch in reverse (revert of a fix commit)."""
import os
import shutil
import subprocess
import sys

VERIF = os.path.dirname(os.path.dirname(os.path.abspath(__file__)))
SCRATCH = "/tmp/nsa-scratch"


def run_one(patch, props, reverse=False, verbose=False):
    if os.path.exists(SCRATCH):
        shutil.rmtree(SCRATCH)
    os.makedirs(SCRATCH)
    repo = os.path.join(SCRATCH, "repo")
    subprocess.check_call(["rsync", "-a", "--exclude", "target", "--exclude", ".git", "/repo/", repo + "/"])
    res = {}
    try:
        if patch:
            cmd = ["patch", "-p1", "-s", "--no-backup-if-mismatch", "-i", os.path.abspath(patch)]
            if reverse:
                cmd.insert(1, "-R")
            p = subprocess.run(cmd, cwd=repo, stdout=subprocess.PIPE, stderr=subprocess.STDOUT, text=True)
            if p.returncode != 0:
                return {"_apply": "patch does not apply: " + p.stdout.strip()[:200]}
        env = dict(os.environ, NSA_REPO=repo, NSA_EVIDENCE_DIR=os.path.join(SCRATCH, "evidence"),
                   NSA_REPLAY_DIR=os.path.join(SCRATCH, "replay"))
        for pr in props:
            p = subprocess.run([os.path.join(VERIF, "check"), pr], env=env, stdout=subprocess.PIPE,
                               stderr=subprocess.STDOUT, text=True)
            viol = [l for l in p.stdout.splitlines() if l.strip().startswith("rule=")]
            res[pr] = (p.returncode, viol, p.stdout if verbose else "")
    finally:
        shutil.rmtree(SCRATCH, ignore_errors=True)
    return res


def main():
    args = sys.argv[1:]
    reverse = False
    verbose = False
    if "-R" in args:
        reverse = True
        args.remove("-R")
    if "-v" in args:
        verbose = True
        args.remove("-v")
    if "--" in args:
        i = args.index("--")
        patches, props = args[:i], args[i + 1:]
    else:
        patches, props = args, []
    for patch in patches:
        name = os.path.basename(patch)
        pp = props
        if not pp:
            # default: property named by the patch (cNN_…)
            if name[0] == "c" and name[1:3].isdigit():
                pp = ["C" + name[1:3]]
            else:
                pp = []
        res = run_one(patch if patch != "none" else None, pp, reverse, verbose)
        if "_apply" in res:
            print("%-50s %s" % (name, res["_apply"]))
            continue
        for pr, (rc, viol, out) in res.items():
            print("%-50s %s rc=%d %s" % (name, pr, rc, ("; ".join(v.strip()[:160] for v in viol[:3])) if viol else ""))
            if verbose:
                print(out)


if __name__ == "__main__":
    main()
