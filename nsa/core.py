"""Check plumbing: obligations, known findings, VIOLATION lines, replay files, evidence."""
import json
import os
import sys
import time

from .facts import VERIF, AnchorMissing, ExtractError, Program, extract

KNOWN_FILE = os.path.join(VERIF, "known_findings.json")
EVIDENCE_DIR = os.environ.get("NSA_EVIDENCE_DIR") or os.path.join(VERIF, "evidence")
REPLAY_DIR = os.environ.get("NSA_REPLAY_DIR") or os.path.join(VERIF, "replay")


# one extraction per profile and process (a single `./check` invocation analyses one snapshot of the tree)
_PROCESS_CACHE = {}


class Ctx:
    """collects the obligations of one property check"""

    def __init__(self, prop, tier="quick"):
        self.prop = prop
        self.tier = tier
        self.t0 = time.time()
        self.obs = []          # every obligation instance
        self.rule_counts = {}  # rule -> instances
        self.floors = {}       # rule -> (found, floor)
        self.notes = []
        self.assumptions = []
        self.configs = []
        self.fixture_results = []
        self._progs = {}
        self.extras = {}

    # -- programs
    def prog(self, profile="dev"):
        if profile not in self._progs:
            if profile not in _PROCESS_CACHE:
                facts = extract(profile)
                from .outline import outline_lane_loops
                facts = outline_lane_loops(facts)        # `for (a, b) in lanes.zip(lanes)` read as Zip::from(..).and(..).for_each(|a, b| ..)
                _PROCESS_CACHE[profile] = (Program(facts), facts["_meta"], len(facts["bodies"]))
            prog, meta, nb = _PROCESS_CACHE[profile]
            self._progs[profile] = prog
            self.configs.append({"profile": profile, "bodies": nb, "tree_hash": meta["tree_hash"][:16],
                                 "extract_s": meta["extract_s"]})
        return self._progs[profile]

    # -- obligations
    def ob(self, rule, key, ok, where="", detail="", what=""):
        """record obligation `rule/key`; ok False = violated"""
        full = "%s/%s" % (rule, key)
        self.obs.append({"rule": rule, "key": full, "ok": bool(ok), "where": where,
                         "detail": detail, "what": what})
        self.rule_counts[rule] = self.rule_counts.get(rule, 0) + 1
        return ok

    def floor(self, rule, found, floor, what):
        """fail closed when a rule matched fewer instances than were counted by hand"""
        self.floors[rule + ":" + what] = (found, floor)
        if found < floor:
            self.ob(rule, "anchor-missing/%s" % what, False, "",
                    "anchor missing: %s: found %d, floor %d (a rule that matches too few sites would pass vacuously)"
                    % (what, found, floor), what="anchor missing")

    def note(self, s):
        self.notes.append(s)


def load_known():
    if not os.path.exists(KNOWN_FILE):
        return []
    with open(KNOWN_FILE) as fh:
        return json.load(fh)["findings"]


def finish(ctx, level, explanation, trusted_base, checker_cmd, extra_cov=None, replay_key=None):
    """print verdicts, write evidence and replay files; returns the exit code"""
    known = [k for k in load_known() if k["property"] == ctx.prop and k.get("status") == "known"]
    known_keys = {k["key"]: k for k in known}
    failed = [o for o in ctx.obs if not o["ok"]]
    if replay_key is not None:
        failed = [o for o in failed if o["key"] == replay_key]
    new = [o for o in failed if o["key"] not in known_keys]
    old = [o for o in failed if o["key"] in known_keys]
    os.makedirs(EVIDENCE_DIR, exist_ok=True)
    for o in old:
        print("KNOWN-FINDING: property=%s %s %s" % (ctx.prop, o["key"], known_keys[o["key"]]["what"]))
    rc = 0
    if new:
        rc = 1
        os.makedirs(REPLAY_DIR, exist_ok=True)
        for n, o in enumerate(new):
            path = os.path.join(REPLAY_DIR, "%s-%d.json" % (ctx.prop, n))
            with open(path, "w") as fh:
                json.dump({"property": ctx.prop, "key": o["key"], "rule": o["rule"], "where": o["where"],
                           "detail": o["detail"], "tier": ctx.tier}, fh, indent=1)
            print("VIOLATION property=%s replay=%s" % (ctx.prop, path))
            print("  rule=%s key=%s at %s\n    %s" % (o["rule"], o["key"], o["where"], o["detail"]))
    total = len(ctx.obs)
    discharged = len([o for o in ctx.obs if o["ok"]])
    if replay_key is None:
        samples = []
        seen_rules = {}
        for o in ctx.obs:
            c = seen_rules.get(o["rule"], 0)
            if c < 6 or not o["ok"]:
                samples.append({"rule": o["rule"], "key": o["key"], "where": o["where"],
                                "verdict": "discharged" if o["ok"] else
                                ("known-finding" if o["key"] in known_keys else "VIOLATED"),
                                "detail": o["detail"][:300]})
            seen_rules[o["rule"]] = c + 1
        cov = {
            "explanation": explanation,
            "obligations": total,
            "discharged": discharged,
            "known_findings_reported": [o["key"] for o in old],
            "checker_cmd": checker_cmd,
            "trusted_base": trusted_base,
            "rule": "one obligation per rule instance (call site, guard, field, path); distinct = distinct stable keys",
            "evaluations": total,
            "distinct_nontrivial": len(set(o["key"] for o in ctx.obs)),
            "instances_per_rule": ctx.rule_counts,
            "floors": {k: {"found": v[0], "floor": v[1]} for k, v in ctx.floors.items()},
            "configurations": ctx.configs,
            "fixtures": ctx.fixture_results,
            "samples": samples,
            "notes": ctx.notes,
            "exhaustive": True,
        }
        cov.update(ctx.extras)
        if extra_cov:
            cov.update(extra_cov)
        ev = {
            "property_id": ctx.prop,
            "tier": ctx.tier,
            "seed": int(os.environ.get("VERIF_SEED", "0") or 0),
            "level": level if (discharged == total or level == "other") else "other",
            "coverage": cov,
            "assumptions": ctx.assumptions + trusted_base,
            "wall_s": round(time.time() - ctx.t0, 2),
            "violations": len(new),
        }
        with open(os.path.join(EVIDENCE_DIR, "%s.json" % ctx.prop), "w") as fh:
            json.dump(ev, fh, indent=1)
    print("%s: %d obligations, %d discharged, %d known findings, %d violations (%.1fs)"
          % (ctx.prop, total, discharged, len(old), len(new), time.time() - ctx.t0))
    return rc
