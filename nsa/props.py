"""Per-property rule sets (DESIGN.md §4)."""
from . import rules_layout as RL
from .facts import AnchorMissing

TRUSTED = [
    "rustc type checking, name resolution and MIR construction (nightly 1.97, mir-opt-level=0)",
    "documented semantics of ndarray 0.16 (swap, Index, Zip/iter pair by logical index, lanes are disjoint, from_shape_ptr builds the view it is told to)",
    "std (sort_unstable, dedup, binary_search, slice indexing), noisy_float, rand::gen_range, indexmap",
    "lawful Ord/PartialOrd implementations of element types",
]


def source_fn(b):
    sp = b.raw.get("sp", {})
    exp = sp.get("exp")
    return not (exp and "Derive" in exp.get("kind", ""))


def all_roots(prog):
    return [b for b in prog.bodies.values() if not b.is_closure and source_fn(b)]


def c20(ctx):
    prog = ctx.prog("dev")
    scanned, sites = RL.rule_r1(ctx, prog)
    ctx.floor("R1", scanned, 380, "bodies scanned")
    ctx.floor("R1", sites, 1000, "call sites scanned")
    roots = all_roots(prog)
    n = RL.rule_r8(ctx, prog, roots)
    ctx.floor("R8", n, 30, "axis-typed call arguments")
    pairs = RL.rule_r9(ctx, prog, roots)
    ctx.floor("R9", len(pairs), 12, "zip sites")
    RL.rule_impl_headers(ctx, prog)
    return dict(
        level="proof",
        explanation="Sufficient condition for layout independence, decided on the resolved MIR of every body: "
                    "(R1) no call to an ndarray/std API that exposes strides, offsets or raw storage outside the audited helper "
                    "maybe_nan::cast_view_mut; (R8) every Axis-typed argument is the caller's axis parameter unchanged, or a "
                    "constant only on 1-D receivers / in the four routines with a documented axis convention; (R9) both sides of "
                    "every zip are undisturbed logical producers; (IMPL) each extension trait is implemented once, generically in "
                    "the storage parameter. Float summation order inside ndarray's fold/sum is the roundoff the property allows.",
    )


PROPS = {"C20": c20}
