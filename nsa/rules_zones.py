"""R18 ZONES (DESIGN.md §4 C15, converse of C16, arithmetic of C04/C13)."""
from .zones import ZoneAnalysis
from .facts import callee_name
from .rules_layout import short


def helper_filter(prog):
    """private, loop-or-not helper functions of the same module may be analysed in place"""
    return lambda cb: cb.key not in prog.exported and len(cb.blocks) <= 60 and not cb.raw.get("unsafe_fn")


def run_zones(ctx, prog, body, pre, pre_text, rule="R18", floor=None):
    from .facts import inline_calls
    key_body = body
    body = inline_calls(prog, body, helper_filter(prog))
    from .facts import eliminate_static_refs
    body = eliminate_static_refs(prog, body)
    from .facts import thread_constant_flags
    body = thread_constant_flags(prog, body)
    from .facts import lower_checked_arith
    body = lower_checked_arith(prog, body)
    za = ZoneAnalysis(body, pre)
    obs = za.run()
    ordinal = {}
    for kind, bb, ok, detail, state in obs:
        ordinal[kind] = ordinal.get(kind, 0) + 1
        key = "%s/%s#%d" % (short(key_body.key), kind, ordinal[kind])
        if not ok:
            key += "/undischarged:" + detail.split(" needs ")[-1] if " needs " in detail else key
        ctx.ob(rule, key, ok, body.where(bb, "term"),
               ("discharged under `%s`: %s [%s]" % (pre_text, detail, state)) if ok else
               ("under the precondition `%s` the analysis cannot exclude a panic: %s; abstract state at this point: %s "
                "(a concrete state inside it violates the requirement)" % (pre_text, detail, state)),
               what="possible panic for in-range arguments")
    if floor is not None:
        ctx.floor(rule, len(obs), floor, "arithmetic/bounds obligations of %s" % body.name)
    ctx.extras.setdefault("R18_functions", []).append({"function": body.key, "precondition": pre_text, "obligations": len(obs),
                                                      "blocks_with_invariants": len(za.states), "zone_variables": len(za.vars)})
    return obs


def rule_r18_partition(ctx, prog):
    b = prog.method("Sort1dExt", "partition_mut")
    pidx = [l for l in range(1, b.arg_count + 1) if b.local_name(l) == "pivot_index"]
    if not pidx:
        ctx.ob("R18", "partition_mut/param", False, b.where(), "anchor missing: pivot_index parameter", what="anchor missing")
        return
    v = "_%d" % pidx[0]
    return run_zones(ctx, prog, b, lambda st, za: st.add(v, "N", -1), "pivot_index < len(self)", floor=13)


def rule_r18_leaves(ctx, prog):
    """converse of C16 for leaf functions without position precondition beyond their documented one"""
    out = []
    b = prog.find("maybe_nan::remove_nan_mut")
    out.append(run_zones(ctx, prog, b, lambda st, za: None, "true (any view)", floor=8))
    b = prog.find("histogram::bins::Bins::<A>::len")
    # `n - 1` carries an overflow assert to discharge; `n.saturating_sub(1)` cannot panic and has none
    sat = any(callee_name(t) == "saturating_sub" for _, t in b.calls()) and not any(b.term(x)["k"] == "assert" for x in b.live_blocks())
    out.append(run_zones(ctx, prog, b, lambda st, za: None, "true", floor=0 if sat else 1))
    return out
