"""RESULT-INTEGRITY helpers (R30): what a routine hands back is the value its verified core computed, with nothing applied to it
afterwards.  The kernels, pairings and formulas of the other rules say *what is computed*; these say *that it is what is returned*:
a doubled sum, a reversed result array, `.map(|_| first)` after a correct fold all leave every kernel rule intact."""
from .facts import callee_name, ds, fmt


def payload_local(tb, d):
    """local moved into the Ok(..)/Some(..) aggregate (or plain returned) at definition d of the return place, following plain moves"""
    if d[0] == "entry" or not isinstance(d[1], int):
        return None
    st = tb.blocks[d[0]]["stmts"][d[1]]
    rv = st["rv"]
    if rv["k"] == "agg" and rv.get("variant") in ("Ok", "Some") and len(rv["fields"]) == 1:
        op = rv["fields"][0]
    elif rv["k"] == "use":
        op = rv["a"]
    else:
        return None
    pbb, psi = d
    for _ in range(8):
        if op["k"] not in ("move", "copy") or op["pl"]["p"]:
            return None
        L = op["pl"]["l"]
        rd = list(tb.reaching_defs(L, pbb, psi))
        if len(rd) == 1 and rd[0][0] != "entry" and isinstance(rd[0][1], int):
            st2 = tb.blocks[rd[0][0]]["stmts"][rd[0][1]]
            if st2["rv"]["k"] == "use" and st2["rv"]["a"]["k"] in ("move", "copy") and not st2["rv"]["a"]["pl"]["p"]:
                op, pbb, psi = st2["rv"]["a"], rd[0][0], rd[0][1]
                continue
        return L
    return None


def mutation_sites(tb, local):
    """[(bb, callee name)] of the calls that receive `&mut local` (tracked body)"""
    out = []
    for dd in tb.defs_of(local):
        if dd[0] != "entry" and isinstance(dd[1], tuple) and dd[1][0] == "mut":
            out.append((dd[0], callee_name(tb.term(dd[0]))))
    return out


def returned_locals(tb):
    ex = tb.exits()
    if not ex:
        return []
    out = []
    for d in tb.reaching_defs(0, ex[0], "term"):
        out.append((d, payload_local(tb, d)))
    return out


WRITE_BORROWS = ("lanes_mut", "view_mut", "axis_iter_mut", "outer_iter_mut", "iter_mut", "rows_mut", "columns_mut", "genrows_mut",
                 "gencolumns_mut", "index_axis_mut", "slice_mut", "slice_axis_mut", "axis_chunks_iter_mut", "indexed_iter_mut")


def rule_filled_array_returned(ctx, tb, key, filler=("for_each", "fold", "apply", "par_for_each"), rule="R30", what=""):
    """tb fills one array through a mutable traversal (Zip/iterator consumed by one of `filler`) and returns it: every success
    value produced after the traversal is that very local, and the only calls that ever receive `&mut array` are the borrowing
    producers of the traversal (no invert_axis / swap_axes / mapv_inplace / assign / fill / sort afterwards or in between)."""
    fills = [bb for bb, t in tb.calls() if callee_name(t) in filler and "Zip" in (t["callee"].get("path") or "") or
             (callee_name(t) in filler and any(n in fmt(ds(tb.call_arg_exprs(bb)[0])) for n in WRITE_BORROWS))]
    if not fills:
        ctx.ob(rule, key, False, tb.where(), "anchor not recognised: no traversal that fills the result", what="anchor not recognised")
        return
    after = set()
    for bb in fills:
        after |= tb.reachable_from(bb)
    bad = None
    n = 0
    for d, L in returned_locals(tb):
        if d[0] == "entry" or d[0] not in after:
            continue
        n += 1
        if L is None:
            bad = "a success value after the traversal is a computed expression, not the filled array"
            break
        sites = mutation_sites(tb, L)
        if not any(nm in WRITE_BORROWS for _, nm in sites):
            bad = "the value returned after the traversal (`%s`) is not the array the traversal filled" % (tb.local_name(L) or "_%d" % L)
            break
        other = [(b_, nm) for b_, nm in sites if nm not in WRITE_BORROWS]
        if other:
            bad = "the result array is also modified by `%s` at %s" % (other[0][1], tb.where(other[0][0], "term"))
            break
    # success values produced *before* the traversal (the short-cut for an empty result) are taken only when the result has no
    # element: the defining block is dominated by the true edge of `size(shape) == 0` / `is_empty(..)` / `len(..) == 0`
    if bad is None:
        from .rules_unsafe import bool_branch_dominating

        def emptiness(de):
            de = ds(de)
            if isinstance(de, tuple) and de[0] == "call" and de[1] == "is_empty":
                return True
            if isinstance(de, tuple) and de[0] == "binop" and de[1] == "Eq":
                l_, r_ = ds(de[2]), ds(de[3])
                return isinstance(l_, tuple) and l_[0] == "call" and l_[1] in ("size", "len", "len_of") and r_ == ("const", "usize", 0)
            return False
        for d, L in returned_locals(tb):
            if d[0] == "entry" or d[0] in after:
                continue
            e = ds(tb.def_expr(0, d))
            if isinstance(e, tuple) and ((e[0] == "agg" and e[2] == "Err") or (e[0] == "call" and e[1] == "from_residual")):
                continue
            doms = bool_branch_dominating(tb, d[0], emptiness)
            if not any(x_[1] for x_ in doms):
                bad = "a success value is produced at %s without running the traversal and without the result being empty" % tb.where(d[0], d[1])
                break
    ok = bad is None and n > 0
    ctx.ob(rule, key, ok, tb.where(fills[0], "term"),
           "the array returned is the one the traversal filled, borrowed mutably by the traversal's producers only" if ok else
           (bad or "no success value after the traversal"), what=what or "result array altered after it was computed")


def core_values(tb):
    """[(def, deep-stripped success expression)]: payloads of Ok/Some aggregates and plain returned values; Err/None/residual
    definitions of the return place are not success values"""
    out = []
    ex = tb.exits()
    if not ex:
        return out
    for d in tb.reaching_defs(0, ex[0], "term"):
        e = ds(tb.def_expr(0, d))
        if isinstance(e, tuple) and e[0] == "agg" and e[1] in ("std::result::Result", "std::option::Option"):
            if e[2] in ("Ok", "Some"):
                out.append((d, ds(e[3][0])))
            continue
        if isinstance(e, tuple) and e[0] == "call" and e[1] == "from_residual":
            continue
        out.append((d, e))
    return out


# routine → the one call whose result it must hand back unchanged.  (trait, method, callee, receiver description)
DELEGATING = [
    ("Sort1dExt", "get_many_from_sorted_mut", "get_many_from_sorted_mut_unchecked"),
    ("MaybeNanExt", "fold_skipnan", "fold"),
    ("MaybeNanExt", "indexed_fold_skipnan", "fold"),
    ("MaybeNanExt", "fold_axis_skipnan", "fold_axis"),
    ("MaybeNanExt", "map_axis_skipnan_mut", "map_axis_mut"),
    ("QuantileExt", "quantile_axis_skipnan_mut", "map_axis_mut"),
    ("QuantileExt", "quantiles_axis_mut", "quantiles_axis_mut"),       # the method hands the inner routine's result back
    ("Quantile1dExt", "quantiles_mut", "quantiles_axis_mut"),
]


def rule_must_pass_through(ctx, prog, trait, meth, callee, rule="R30"):
    """a routine without a result (a visitor): every entry→return path runs the traversal call (no early exit skips the visit)"""
    root = prog.method(trait, meth)
    sites = [bb for bb, t in root.calls() if callee_name(t) == callee]
    key = "%s/every-path-runs-%s" % (meth, callee)
    if not sites:
        # the visit may be spelled through a sibling traversal of the same receiver (fold_skipnan with a unit accumulator, a `for`
        # loop over self.iter(), …): any traversal-starting call on self serves as the point every path must pass
        alt = ("fold", "try_fold", "try_for_each", "fold_skipnan", "indexed_fold_skipnan", "iter", "into_iter", "indexed_iter")
        for bb, t in root.calls():
            if callee_name(t) in alt:
                a0 = ds(root.call_arg_exprs(bb)[0])
                for _ in range(4):
                    if isinstance(a0, tuple) and a0[0] == "call" and a0[1] in ("view", "iter", "into_iter", "deref") and a0[3]:
                        a0 = ds(a0[3][0])
                if isinstance(a0, tuple) and a0[:2] == ("param", 1):
                    sites.append(bb)
                    callee = callee_name(t)
    if len(sites) != 1:
        ctx.ob(rule, key, False, root.where(), "anchor not recognised: %d calls to %s" % (len(sites), callee), what="anchor not recognised")
        return
    skip = root.can_reach_return(0, avoid=(sites[0],))
    ctx.ob(rule, key, not skip, root.where(sites[0], "term"),
           "no path from entry to return avoids the %s(..) traversal" % callee if not skip else
           "some path returns without running the %s(..) traversal: elements are not visited" % callee, what="traversal skipped on some path")


def rule_r30_delegating(ctx, prog, only=None, rule="R30"):
    """every success value of the listed routines is the result of the named traversal/worker call itself: the same call
    expression, reached through moves only.  `.reversed_axes()`, `.map(|_| ..)`, a popped map entry or an in-place edit
    between the call and the return all leave the kernel rules intact and are caught here."""
    n = 0
    if hasattr(prog, "inlined_view"):
        prog = prog.inlined_view()       # a routine whose body was moved into a private free function is read in place
    for trait, meth, callee in DELEGATING:
        if only is not None and (trait, meth) not in only:
            continue
        n += 1
        root = prog.method(trait, meth)
        tb = prog.tracked(root)
        sites = [bb for bb, t in tb.calls() if callee_name(t) == callee]
        key = "%s/returns-%s-result" % (meth, callee)
        if len(sites) != 1:
            # the worker may be reached through a private helper: accept a single local call that itself satisfies the rule
            ctx.ob(rule, key, False, root.where(), "anchor not recognised: %d calls to %s in %s" % (len(sites), callee, meth),
                   what="anchor not recognised")
            continue
        want = ds(tb.call_expr(sites[0]))
        vals = core_values(tb)
        bad = [v for _d, v in vals if v != want]
        # the receiving local must not be edited in place after the call either
        edited = None
        for d, v in vals:
            if v == want:
                L = payload_local(tb, d) if isinstance(d[1], int) else None
                if L is not None:
                    ms = [m for m in mutation_sites(tb, L)]
                    if ms:
                        edited = ms[0]
        ok = bool(vals) and not bad and edited is None
        ctx.ob(rule, key, ok, root.where(sites[0], "term"),
               "the success value is the result of %s(..) itself" % callee if ok else
               ("the result of %s(..) is edited in place by `%s` before it is returned" % (callee, edited[1]) if edited else
                "a success value is `%s`, not the result of %s(..)" % (fmt(bad[0])[:100] if bad else "missing", callee)),
               what="result altered after the verified core computed it")
    return n


def rule_r30_captured_index(ctx, prog, names=("argmin_skipnan", "argmax_skipnan"), rule="R30"):
    """the index returned on success is the variable the traversal's callback updates (captured by `&mut`), not a fresh or
    default value"""
    for name in names:
        root = prog.method("QuantileExt", name)
        tb = prog.tracked(root)
        captured = set()
        for bb, si, s_ in tb.assigns():
            rv = s_["rv"]
            if rv["k"] == "agg" and rv.get("closure"):
                for op in rv["fields"]:
                    if op["k"] in ("move", "copy") and not op["pl"]["p"]:
                        for dd in tb.defs_of(op["pl"]["l"]):
                            if dd[0] != "entry" and isinstance(dd[1], int):
                                st = tb.blocks[dd[0]]["stmts"][dd[1]]
                                if st["rv"]["k"] == "ref" and st["rv"].get("mut") and not st["rv"]["pl"]["p"]:
                                    captured.add(st["rv"]["pl"]["l"])
        vals = [(d, v) for d, v in core_values(tb)]
        ok = bool(vals)
        detail = "the returned index is the variable updated by the traversal callback"
        for d, v in vals:
            L = payload_local(tb, d) if isinstance(d[1], int) else None
            if L is None or L not in captured:
                # accumulator-carried form: the index travels inside the fold's accumulator and is projected out of its result
                if any(isinstance(x, tuple) and x[0] == "call" and x[1] in ("indexed_fold_skipnan", "fold") for x in _walk(v)):
                    continue
                ok = False
                detail = "the success value `%s` is not the index tracked by the traversal" % fmt(v)[:100]
        ctx.ob(rule, "%s/returns-the-tracked-index" % name, ok, root.where(), detail, what="index replaced after the scan")


def _walk(e):
    from .facts import walk
    return walk(e)


# ------------------------------------------------------------------------------------------------ guard direction by simulation
_CMPS = {"lt": lambda a, b: a < b, "le": lambda a, b: a <= b, "gt": lambda a, b: a > b, "ge": lambda a, b: a >= b,
         "eq": lambda a, b: a == b, "ne": lambda a, b: a != b,
         "Lt": lambda a, b: a < b, "Le": lambda a, b: a <= b, "Gt": lambda a, b: a > b, "Ge": lambda a, b: a >= b,
         "Eq": lambda a, b: a == b, "Ne": lambda a, b: a != b}


def eval_cond(e, leaf):
    """truth value of a comparison / Boolean combination over leaves with known numeric values, None if not evaluable.
    Only the *extracted* MIR condition is evaluated, at a handful of sample points that separate every relational operator
    (below / at / above each bound): a finite decision table, not an execution of the crate."""
    e = ds(e)
    if not isinstance(e, tuple):
        return None
    if e[0] == "const" and isinstance(e[2], bool):
        return e[2]
    if e[0] == "unop" and e[1] == "Not":
        v = eval_cond(e[2], leaf)
        return None if v is None else (not v)
    if e[0] == "call" and e[1] == "not" and len(e[3]) == 1:
        v = eval_cond(e[3][0], leaf)
        return None if v is None else (not v)
    if (e[0] == "call" and e[1] in _CMPS and len(e[3]) == 2) or (e[0] == "binop" and e[1] in _CMPS):
        a, b = (e[3][0], e[3][1]) if e[0] == "call" else (e[2], e[3])
        va, vb = num_value(a, leaf), num_value(b, leaf)
        if va is None or vb is None:
            return None
        return _CMPS[e[1]](va, vb)
    if e[0] == "binop" and e[1] in ("BitAnd", "BitOr"):
        a, b = eval_cond(e[2], leaf), eval_cond(e[3], leaf)
        if a is None or b is None:
            return None
        return (a and b) if e[1] == "BitAnd" else (a or b)
    return None


def num_value(e, leaf):
    e = ds(e)
    v = leaf(e)
    if v is not None:
        return v
    if isinstance(e, tuple):
        if e[0] == "const" and isinstance(e[2], (int, float)) and not isinstance(e[2], bool):
            return e[2]
        if e[0] == "cast":
            return num_value(e[2], leaf)
        if e[0] == "call" and e[1] in ("expect", "unwrap", "from", "into", "clone", "deref") and e[3]:
            return num_value(e[3][0], leaf)
        if e[0] == "call" and e[1] in ("from_usize", "from_u16", "from_i32", "from_f64", "from_u32", "from_u64") and e[3]:
            return num_value(e[3][0], leaf)
        if e[0] == "call" and e[1] in ("zero",) and not e[3]:
            return 0
        if e[0] == "call" and e[1] in ("one",) and not e[3]:
            return 1
    return None


def simulate_guard(body, start_bb, leaf, max_steps=400):
    """follow the CFG from start_bb, deciding every switch whose discriminant eval_cond can evaluate under `leaf`;
    → 'diverges' (a block is reached from which no return is reachable), 'passes' (return, or the first switch that does not
    depend on the sampled quantities), 'loop' (step budget exhausted)"""
    bb = start_bb
    for _ in range(max_steps):
        if not body.can_reach_return(bb):
            return "diverges"
        t = body.term(bb)
        k = t["k"]
        if k == "return":
            return "passes"
        if k == "switch":
            v = eval_cond(body.switch_discr_expr(bb), leaf)
            if v is None:
                return "passes"
            tgt = t["otherwise"]
            for val, tg in t["arms"]:
                if val == int(v):
                    tgt = tg
            bb = tgt
            continue
        nxt = t.get("target")
        if nxt is None:
            return "diverges"
        bb = nxt
    return "loop"


def rule_guard_table(ctx, body, key, involves, leaf_for, samples, expect_diverge, describe, rule="R30", what=""):
    """the panicking precondition check of `body` that mentions `involves(expr)` diverges on exactly the samples it should"""
    starts = []
    for bb, t in body.calls():
        if callee_name(t) in _CMPS and any(involves(ds(a)) for a in body.call_arg_exprs(bb)):
            starts.append(bb)
    for bb in body.live_blocks():
        t = body.term(bb)
        if t["k"] == "switch":
            de = ds(body.switch_discr_expr(bb))
            if isinstance(de, tuple) and de[0] == "binop" and de[1] in _CMPS and (involves(ds(de[2])) or involves(ds(de[3]))):
                starts.append(bb)
    starts = [b for b in starts if all(body.dominates(b, o) or not body.dominates(o, b) for o in starts)]
    first = [b for b in starts if all(body.dominates(b, o) for o in starts)]
    if not first:
        ctx.ob(rule, key, False, body.where(), "anchor not recognised: no comparison on the guarded quantity found", what="anchor not recognised")
        return
    start = first[0]
    bad = []
    for s_ in samples:
        got = simulate_guard(body, start, leaf_for(s_))
        exp = expect_diverge(s_)
        if exp is None:         # outside the property's quantifier: either behaviour is acceptable
            continue
        want = "diverges" if exp else "passes"
        if got != want:
            bad.append("%s: %s, expected %s" % (describe(s_), got, want))
    ctx.ob(rule, key, not bad, body.where(start, "term"),
           "the precondition check lets every argument of the property's range through (%d sample points at and between its bounds)" % len(samples) if not bad else
           "the precondition check decides wrongly: " + "; ".join(bad[:3]), what=what or "precondition check rejects valid arguments or admits invalid ones")



def success_paths_under(body, leaf, max_states=4000):
    """every (definition of the return place, blocks passed) with which `body` can return when the switches that depend on the
    sampled quantities are decided by `leaf` (integer switches on a sampled value included) and every other switch is explored
    both ways; loops are cut at the first revisit.  Only the extracted CFG is walked."""
    out = []
    seen = set()
    stack = [(0, None, (0,))]
    while stack and len(seen) < max_states:
        bb, last, path = stack.pop()
        if (bb, last) in seen:
            continue
        seen.add((bb, last))
        blk = body.blocks[bb]
        for si, s_ in enumerate(blk["stmts"]):
            if s_["k"] == "assign" and s_["dst"]["l"] == 0 and not s_["dst"]["p"]:
                last = (bb, si)
        t = blk["term"]
        k = t["k"]
        if k == "return":
            out.append((last, path))
            continue
        if k == "call" and t["dst"]["l"] == 0 and not t["dst"]["p"]:
            last = (bb, "term")
        if k == "switch":
            de = body.switch_discr_expr(bb)
            v = eval_cond(de, leaf)
            if v is None:
                nv = num_value(de, leaf)
                v = nv if isinstance(nv, int) and not isinstance(nv, bool) else None
            if v is not None:
                tgt = t["otherwise"]
                for val, tg in t["arms"]:
                    if val == int(v):
                        tgt = tg
                stack.append((tgt, last, path + (tgt,)))
                continue
        for s2 in body.succ(bb):
            stack.append((s2, last, path + (s2,)))
    return out
