"""Must-fire positives (DESIGN.md §2.7): the fixtures crate /verif/fixtures is analysed by the same driver on every run and
each expected-zero rule must flag its planted violation; a rule that misses its fixture fails the check closed."""
import os

from .core import Ctx
from .facts import VERIF, Program, extract, ds
from . import rules_layout as RL
from . import rules_select as RS
from . import rules_unsafe as RU
from . import rules_effect as RE
from . import rules_guard as RG
from . import rules_terms as RT
from . import rules_zones as RZ
from . import terms as T

_prog = None


def fixture_prog():
    global _prog
    if _prog is None:
        facts = extract("dev", repo=os.path.join(VERIF, "fixtures"), crate="nsfix", floor=17)
        _prog = Program(facts)
    return _prog


def _fired(scratch, rule_prefix, needle):
    return any((not o["ok"]) and o["rule"].startswith(rule_prefix) and needle in o["key"] for o in scratch.obs)


def fx_r1(prog):
    c = Ctx("FX")
    RL.rule_r1(c, prog)
    return _fired(c, "R1", "fix_r1_memory_order")


def fx_r8(prog):
    c = Ctx("FX")
    RL.rule_r8(c, prog, [prog.find("fix_r8_const_axis")])
    return _fired(c, "R8", "fix_r8_const_axis")


def fx_r9(prog):
    c = Ctx("FX")
    RL.rule_r9(c, prog, [prog.find("fix_r9_reversed")])
    return _fired(c, "R9", "fix_r9_reversed")


def fx_r14(prog):
    c = Ctx("FX")
    RU.rule_r14(c, prog)
    return _fired(c, "R14", "fix_r14_random")


def fx_r3(prog):
    c = Ctx("FX")
    blocks = [u for u in prog.unsafe_blocks if RU.is_source_unsafe(u)]
    return any(u["owner"].endswith("fix_r3_unsafe") and not (u["owner"].startswith("maybe_nan::")) for u in blocks)


def fx_r4(prog):
    c = Ctx("FX")
    eff = RE.Effect(c, prog, "R4")
    eff.add_entry(prog.find("fix_r4_fill"), [1])
    eff.add_entry(prog.find("fix_r4_zip_store"), [1])
    eff.run()
    return _fired(c, "R4", "fix_r4_fill") and _fired(c, "R4", "fix_r4_zip_store")


def fx_r5(prog):
    c = Ctx("FX")
    mc = RS.MustCheck(c, prog, rule="R5")
    mc.strict(prog.find("fix_r5_unchecked_position"), 2)
    return _fired(c, "R5", "fix_r5_unchecked_position")


def fx_r6(prog):
    r = RG.Routine(prog, prog.find("fix_r6_guard_order"))
    seq = [x.cls[0] for x in r.exits if x.kind == "err" and x.cls]
    return seq == ["SHAPE", "EMPTY"]


def fx_r18(prog):
    c = Ctx("FX")
    b = prog.find("fix_r18_underflow")
    RZ.run_zones(c, prog, b, lambda st, za: st.add("_2", "N", -1), "pivot_index < len")
    return any((not o["ok"]) and "Overflow:Sub" in o["key"] for o in c.obs)


def fx_r19(prog):
    root = prog.find("fix_r19_not_squared")
    zf = RT.zip_foreach(prog, root)
    if zf is None:
        return False
    bb, prods, cb, ups = zf
    ret, updates = T.closure_terms(prog, cb, {2: ("sym", "a"), 3: ("sym", "b")}, upvar_leaf=lambda e: ("sym", "ACC"))
    (u, upd), = updates.items()
    inc = RT.inc_of(upd)
    res = T.sympy_equal([(inc, ("pow", ("sub", ("sym", "a"), ("sym", "b")), 2))])
    return res[0]["equal"] is False


def fx_r10(prog):
    root = prog.find("fix_r10_no_zero_branch")
    for bb, t in root.calls():
        if t["callee"].get("name") == "mapv":
            cb, ups = RT.closure_of(prog, root.call_arg_exprs(bb)[1])
            ret, _ = T.closure_terms(prog, cb, {2: ("sym", "x")})
            return ret[0] != "ite"
    return False


def fx_r21(prog):
    from . import rules_segments as RSG
    c = Ctx("FX")
    RSG.rule_r21_compaction(c, prog, body=prog.find("fix_r21_wrong_prefix"))
    return any((not o["ok"]) and "rest-is-nan" in o["key"] for o in c.obs)


def fx_r22(prog):
    from . import rules_segments as RSG
    c = Ctx("FX")
    RSG.rule_r22_partition(c, prog, body=prog.find("fix_r22_not_strict"))
    return any((not o["ok"]) and "left-strictly-smaller" in o["key"] for o in c.obs)


def fx_r24(prog):
    from .selection import SelectionProof
    b = prog.find("fix_r24_rebase_wrong")
    part = prog.find("fix_r22_not_strict")
    res = SelectionProof(prog, b, part.key, {b.key}).prove(2)
    return len(res) >= 3 and any(not (r[1] and r[2] and r[3]) for r in res) and any(r[1] and r[2] and r[3] for r in res)


def fx_r25(prog):
    from .bulkselect import BulkProof
    b = prog.find("fix_r25_found_not_written")
    part = prog.find("fix_r22_not_strict")
    res = BulkProof(prog, b, part.key).prove()
    bad = [r for r in res if not r["ok"]]
    return len(res) >= 5 and len(bad) == 1 and bad[0]["case"] == "eq" and any(r["ok"] for r in res)


def fx_r26(prog):
    from . import rules_range as RR
    c = Ctx("FX")
    RR.rule_r26_ranges(c, prog, bodies=[("fix_r26_overshoot", prog.find("fix_r26_overshoot"))])
    bad = {o["key"] for o in c.obs if not o["ok"]}
    good = {o["key"] for o in c.obs if o["ok"]}
    return "R26/fix_r26_overshoot/bracket/unsigned" in bad and "R26/fix_r26_overshoot/coincide/unsigned" in good


FIXTURES = {"R26": fx_r26, "R24": fx_r24, "R25": fx_r25, "R21": fx_r21, "R22": fx_r22, "R1": fx_r1, "R8": fx_r8, "R9": fx_r9, "R14": fx_r14, "R3": fx_r3, "R4": fx_r4, "R5": fx_r5, "R6": fx_r6,
            "R18": fx_r18, "R19": fx_r19, "R10": fx_r10}


def run_fixtures(ctx, rules):
    """each named rule must fire on its planted positive; otherwise the property check fails closed"""
    try:
        prog = fixture_prog()
    except Exception as ex:   # the fixtures crate depends on /repo: a compile error there is reported by the main extraction
        ctx.ob("FIXTURE", "extraction", False, "", "fixtures crate could not be analysed: %s" % str(ex)[:300], what="fixture self-test failed")
        return
    for r in rules:
        f = FIXTURES.get(r)
        if f is None:
            continue
        try:
            ok = bool(f(prog))
            err = ""
        except Exception as ex:
            ok = False
            err = repr(ex)[:200]
        ctx.fixture_results.append({"rule": r, "must_fire": True, "fired": ok})
        ctx.ob("FIXTURE", "%s/must-fire" % r, ok, "fixtures/src/lib.rs",
               "rule %s flags its planted violation in the fixtures crate" % r if ok else
               "rule %s did NOT flag its planted violation (%s): the rule is broken, its silence on the crate means nothing" % (r, err),
               what="rule self-test failed")
