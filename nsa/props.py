"""Per-property rule sets (DESIGN.md §4)."""
from . import rules_layout as RL
from . import rules_select as RS
from . import rules_guard as RG
from . import rules_unsafe as RU
from . import rules_effect as RE
from . import rules_extrema as RX
from . import rules_skipnan as RK
from . import rules_result as RR30
from . import rules_hist as RH
from . import rules_terms as RT
from . import rules_zones as RZ
from . import rules_segments as RSG
from . import rules_range as RR
from . import rules_wrapper as RW
from .facts import AnchorMissing

TRUSTED = [
    "rustc type checking, name resolution and MIR construction (nightly 1.97, mir-opt-level=0)",
    "documented semantics of ndarray 0.16 (swap, Index, Zip/iter pair by logical index, lanes are disjoint, from_shape_ptr builds the view it is told to)",
    "std (sort_unstable, dedup, binary_search, slice indexing), noisy_float, rand::gen_range, indexmap",
    "lawful Ord/PartialOrd implementations of element types",
]


def source_fn(b):
    sp = b.raw.get("sp", {})
    exp = sp.get("exp")
    return not (exp and "Derive" in exp.get("kind", ""))


def all_roots(prog):
    return [b for b in prog.bodies.values() if not b.is_closure and source_fn(b)]


def c20(ctx):
    prog = ctx.prog("dev")
    RR30.rule_r30_delegating(ctx, prog, only={("MaybeNanExt", "fold_axis_skipnan"), ("MaybeNanExt", "map_axis_skipnan_mut"), ("QuantileExt", "quantile_axis_skipnan_mut")})
    scanned, sites = RL.rule_r1(ctx, prog)
    ctx.floor("R1", scanned, 380, "bodies scanned")
    ctx.floor("R1", sites, 1000, "call sites scanned")
    roots = all_roots(prog)
    n = RL.rule_r8(ctx, prog, roots)
    ctx.floor("R8", n, 30, "axis-typed call arguments")
    pairs = RL.rule_r9(ctx, prog, roots)
    ctx.floor("R9", len(pairs), 12, "zip sites")
    RL.rule_impl_headers(ctx, prog)
    n23 = RK.rule_r23(ctx, prog, roots)
    ctx.floor("R23", n23, 5, "caller-supplied callbacks")
    n23c = RK.rule_r23_collect(ctx, prog, roots)
    ctx.floor("R23", n23c, 10, "closures driven by layout-ordered ndarray traversals")
    return dict(
        level="proof",
        explanation="Sufficient condition for layout independence, decided on the resolved MIR of every body: "
                    "(R1) no call to an ndarray/std API that exposes strides, offsets or raw storage outside the audited helper "
                    "maybe_nan::cast_view_mut; (R8) every Axis-typed argument is the caller's axis parameter unchanged, or a "
                    "constant only on 1-D receivers / in the four routines with a documented axis convention; (R9) both sides of "
                    "every zip are undisturbed logical producers; (IMPL) each extension trait is implemented once, generically in "
                    "the storage parameter; (R23) a caller-supplied callback is driven by an order-unspecified traversal only in the "
                    "routines documented as arbitrary-order; no Default::default() of a generic dimension type (IxDyn). "
                    "Float summation order inside ndarray's fold/sum is the roundoff the property allows.",
    )


def c16(ctx):
    n = 0
    for prof in ("rel", "dev"):
        prog = ctx.prog(prof)
        mc = RS.MustCheck(ctx, prog, rule="R5[%s]" % prof)
        part = prog.method("Sort1dExt", "partition_mut")
        sel = prog.method("Sort1dExt", "get_from_sorted_mut")
        bulk = prog.method("Sort1dExt", "get_many_from_sorted_mut")
        edges_index = prog.find("histogram::bins::Edges<A> as std::ops::Index<usize>>::index")
        bins_index = prog.find("histogram::bins::Bins::<A>::index")
        grid_index = prog.find("histogram::grid::Grid::<A>::index")
        mc.strict(part, 2)
        mc.strict(edges_index, 2)
        from .rules_segments import selection_helper
        hp = selection_helper(prog, sel)
        if hp is not None:
            mc.strict(hp[0], hp[1])        # the recursion lives in a private helper: it rejects, the wrapper delegates on the whole view
        mc.strict(sel, 2)
        mc.bulk(bulk, 2)
        mc.bins_index(bins_index, 2)
        mc.grid_index(grid_index, 2, bins_index)
    ctx.floor("R5", len([o for o in ctx.obs if o["rule"].startswith("R5")]), 16, "must-check obligations (8 per profile)")
    # converse (in-range calls never panic), decided for the leaf functions the zone analysis covers
    RZ.rule_r18_partition(ctx, ctx.prog("dev"))
    RZ.rule_r18_leaves(ctx, ctx.prog("dev"))
    RSG.rule_r18s_selection_converse(ctx, ctx.prog("dev"))
    return dict(
        level="other",
        explanation="Rejection direction of C16, decided as a must-pass-through property of the CFG in both build profiles "
                    "(release: no debug_assert!, no overflow checks; constant-false branches pruned first): every entry→return path of "
                    "partition_mut, get_from_sorted_mut, get_many_from_sorted_mut, Edges::index, Bins::index and Grid::index passes an "
                    "operation that diverges unless position < length (bounds-checked Index by the position, an assert comparing it with "
                    "len(self), or delegation to a verified callee on a sub-view with the index shifted by the same amount). "
                    "The converse (in-range calls never panic): for the leaf functions by the zone analysis R18; for the two recursive selection "
                    "routines by R18s – the abstract executions of R24/R25 record every point where continuing presupposes that no panic "
                    "happened (bounds-checked indexing and slicing, split_at_mut, overflow and debug assertions, an empty gen_range, "
                    "partition_mut's precondition pivot < len, the preconditions of the recursive calls) and each must be entailed by the "
                    "state reached under `i < len` resp. the bulk routine's precondition. Panics inside the element type's own clone/cmp "
                    "are outside the property. The executions also cover the empty request (no requested rank: nothing to establish, nothing may panic), and "
                    "the public bulk wrapper may read the array at position 0 only, behind `!indexes.is_empty()` (non-empty in-bounds request ⇒ non-empty array).",
    )


def c17(ctx):
    prog = ctx.prog("dev")
    n, e = RG.rule_r6(ctx, prog)
    ctx.floor("R6", n, 48, "tabled fallible routines")
    ctx.floor("R6", e, 55, "error exits extracted")
    nf = RG.rule_from_impls(ctx, prog)
    ctx.floor("R6", nf, 6, "error conversion impls")
    RT.rule_quantiles_fill_value(ctx, prog)      # "Ok otherwise, never a panic": the empty-result shortcut precedes first().unwrap()
    return dict(
        level="other",
        explanation="Decision-table conformance of every fallible routine: the ordered sequence of error exits (guard condition class, "
                    "subjects, error variant, payload provenance) is extracted from the MIR of each of the tabled routines (private helpers "
                    "inlined, `?` and From conversions applied symbolically) and compared with the table transcribed from the property: "
                    "EmptyInput first, ShapeMismatch(self shape, argument shape) second, InvalidQuantile(first offending q) before the "
                    "axis-emptiness check, sum-type routines accept empty input, derived routines delegate with unchanged roles, and no "
                    "panic is decided before a documented error exit. Guards are pure functions of shapes and q, so each cell holds for all inputs.",
    )


def c04(ctx):
    prog = ctx.prog("dev")
    # no layout-observing API in maybe_nan outside the audited helper (the compaction itself must be stride-agnostic)
    sc, si = RL.rule_r1(ctx, prog, scope=lambda b: b.key.startswith("maybe_nan::") or " as maybe_nan::" in b.key)
    ctx.floor("R1", sc, 40, "maybe_nan bodies scanned")
    n2 = RU.rule_r2(ctx, prog)
    ctx.floor("R2", n2, 3, "from_shape_ptr sites")
    RU.rule_cast_guards(ctx, prog)
    n3 = RU.rule_r3(ctx, prog)
    ctx.floor("R3", n3, 40, "unsafe constructs (blocks + unsafe fns)")
    n11 = RU.rule_r11_notnone(ctx, prog)
    ctx.floor("R11", n11, 2, "NotNone constructions (new and the derived Clone; try_new may delegate to new)")
    n14 = RU.rule_r14(ctx, prog)
    ctx.floor("R14", n14, 2, "rand call sites")      # one generator and one draw at least (both selections may share a private pivot helper)
    RSG.rule_r21_compaction(ctx, prog)
    RZ.run_zones(ctx, prog, prog.find("maybe_nan::remove_nan_mut"), lambda st, za: None, "true (any view)", floor=8)
    # the 14 element types: every MaybeNan impl's remove_nan_mut goes through the same audited path
    impls = [b for b in prog.bodies.values() if b.name == "remove_nan_mut" and " as maybe_nan::MaybeNan>" in b.key]
    ctx.floor("R3", len(impls), 14, "MaybeNan::remove_nan_mut impls (f32, f64, 12 Option types)")
    # determinism: no randomness reachable from maybe_nan
    for b in prog.bodies.values():
        if b.key.startswith("maybe_nan::") or " as maybe_nan::" in b.key:
            for bb, t in b.calls():
                if t["callee"].get("krate") in ("rand", "rand_core"):
                    ctx.ob("R14", "%s/deterministic" % b.key, False, b.where(bb, "term"), "randomness inside maybe_nan", what="nondeterminism")
    RW.rule_r29_missing_definition(ctx, prog)
    return dict(
        level="other",
        explanation="Soundness conditions of the unsafe re-typing behind NaN removal, decided on MIR/HIR for all 14 element types: "
                    "(R2) every from_shape_ptr takes pointer, length and stride from one source view (stride 0 only under len<=1, "
                    "negative strides via offset (len-1)*stride + invert_axis), size/align asserts dominate the pointer cast, NotNone is "
                    "repr(transparent) with a private field; (R3) every unsafe block/fn is in the audited inventory and tied to its guard "
                    "(cast only of the compacted view, cast to NotNone only where is_none() is false, unreachable_unchecked only in the "
                    "None arm); (R11) NotNone is only built from values known Some; (R14) no randomness; (R21) the two-pointer compaction's "
                    "postcondition is proved by candidate-invariant checking over segment predicates: inductive invariants "
                    "∀k<i ¬nan, ∀k>j nan, (i ≤ j ⇒ nan(a[i])) hold at the three loop heads and every return is the prefix view[..x] "
                    "with ∀k<x ¬nan(view[k]) and ∀k≥x nan(view[k]) – with R4 (only swaps) the result holds exactly the non-missing "
                    "elements and its length is their count; (R18) its index arithmetic cannot panic. Idempotence follows (a NaN-free "
                    "prefix is returned unchanged: first loop runs to the end) but is not checked separately.",
    )


def c03(ctx):
    prog = ctx.prog("dev")
    eff = RE.rule_r4(ctx, prog)
    fam = set(eff.family)
    RL.rule_r1(ctx, prog, scope=lambda b: b.key in fam or (b.is_closure and b.root in fam))
    n2 = RU.rule_r2(ctx, prog)
    ctx.floor("R2", n2, 3, "from_shape_ptr sites")
    RU.rule_cast_guards(ctx, prog)
    # parametricity (recorded, informational for C02/C15): selection is bounded by exactly Ord + Clone on A
    for nme in ("partition_mut", "get_from_sorted_mut", "get_many_from_sorted_mut"):
        b = prog.method("Sort1dExt", nme)
        a_bounds = sorted(p for p in b.raw["preds"] if p.startswith("A: ") and "Sized" not in p)
        ctx.note("%s: element bounds %s" % (nme, a_bounds))
    return dict(
        level="proof",
        explanation="Effect discipline sufficient for 'only permutes the lanes it was given', decided over the call graph reachable from the "
                    "mutating entry points along edges that pass a mutable array handle: every use of a caller-owned mutable handle is "
                    "ArrayBase::swap, a re-view onto the same elements, a traversal whose closure is checked with the right parameters "
                    "caller-owned, a checked family member, the audited raw helper (R2: rebuilt views cover exactly the source elements) "
                    "or the user's own callback; no store goes through an element reference of caller data. Lanes produced by "
                    "lanes_mut/map_axis_mut are disjoint (ndarray contract), so nothing moves between lanes or outside the view.",
    )


def c05(ctx):
    prog = ctx.prog("dev")
    only = {("QuantileExt", n) for n in ("argmin", "argmax", "min", "max")}
    n, e = RG.rule_r6(ctx, prog, only=only)
    ctx.floor("R6", n, 4, "extremum routines in the decision table")
    RG.rule_from_impls(ctx, prog)
    RX.rule_r7_plain(ctx, prog)
    nd = RX.rule_r7_direction(ctx, prog, RX.PLAIN)
    ctx.floor("R7", nd, 4, "direction table rows")
    RL.rule_r1(ctx, prog, scope=lambda b: "quantile::QuantileExt" in b.key)
    return dict(
        level="other",
        explanation="Structural clauses of C05 decided on MIR for argmin/argmax/min/max: (R6) the first decision is emptiness of the whole "
                    "receiver and yields EmptyInput (via From<EmptyInput> for MinMaxError, whose body is checked); (R7) every comparison "
                    "between elements is partial_cmp whose None becomes UndefinedOrder through `?` (no lt/le/gt/ge on elements), the scan "
                    "visits the whole receiver (no skip/take: a NaN in first position is compared too), the replacement predicate is "
                    "'new < best' for the min forms and 'new > best' for the max forms (arg and value form agree), and the arg forms update "
                    "index and value together from one indexed_iter item and return that index. Not decided: that the scan result is "
                    "extremal for all value patterns (needs transitivity over runtime values).",
    )


def c14(ctx):
    prog = ctx.prog("dev")
    n = RK.rule_r15(ctx, prog)
    ctx.floor("R15", n, 4, "skip-NaN traversals")
    RK.rule_lane_forms(ctx, prog)
    RK.rule_r23(ctx, prog, [b for b in all_roots(prog) if "maybe_nan::MaybeNanExt" in b.key])
    RR30.rule_r30_delegating(ctx, prog, only={("MaybeNanExt", m) for m in ("fold_skipnan", "indexed_fold_skipnan", "fold_axis_skipnan", "map_axis_skipnan_mut")})
    RR30.rule_r30_captured_index(ctx, prog)
    RR30.rule_must_pass_through(ctx, prog, "MaybeNanExt", "visit_skipnan", "for_each")
    nd = RX.rule_r7_direction(ctx, prog, RX.SKIPNAN)
    ctx.floor("R7", nd, 4, "direction table rows (skip-NaN extrema)")
    for nme in ("argmin_skipnan", "argmax_skipnan"):
        RX.rule_initial_index(ctx, prog, prog.method("QuantileExt", nme), nme)
    only = {("QuantileExt", "argmin_skipnan"), ("QuantileExt", "argmax_skipnan"), ("QuantileExt", "quantile_axis_skipnan_mut")}
    RG.rule_r6(ctx, prog, only=only)
    roots = [b for b in all_roots(prog) if "maybe_nan::MaybeNanExt" in b.key or b.name.endswith("skipnan") or b.name.endswith("skipnan_mut")]
    ns = RL.rule_r8(ctx, prog, roots)
    ctx.floor("R8", ns, 4, "axis arguments in skip-NaN routines")
    n2 = RU.rule_r2(ctx, prog)
    ctx.floor("R2", n2, 3, "from_shape_ptr sites")
    RL.rule_r1(ctx, prog, scope=lambda b: b.key.startswith("maybe_nan::") or " as maybe_nan::" in b.key or "skipnan" in b.key)
    impls = [b for b in prog.bodies.values() if b.name == "remove_nan_mut" and " as maybe_nan::MaybeNan>" in b.key]
    for b in impls:
        ok, detail = RU.audit_unsafe(prog, b, "remove_nan_mut")
        ctx.ob("R3", "%s/strip-sound" % RL.short(b.key), ok, b.where(), detail, what="stripped lane unsound")
    RW.rule_r28_notnone_transparent(ctx, prog)
    RW.rule_r29_missing_definition(ctx, prog)
    return dict(
        level="other",
        explanation="Structural clauses of C14: (R15) in fold_skipnan/indexed_fold_skipnan/visit_skipnan/fold_axis_skipnan the ndarray "
                    "traversal covers the whole receiver and its closure calls the user function exactly once, on the Some branch of "
                    "try_as_not_nan(item), with that value (and the item's index), returning the accumulator unchanged otherwise; "
                    "lane forms are map_axis_mut(axis, f ∘ remove_nan_mut) and 'strip, empty ⇒ missing value, else the plain quantile "
                    "with the caller's q and strategy'; (R7) comparator direction of the four skip-NaN extrema; (R6) EmptyInput iff the "
                    "fold result is None, q validated before emptiness; (R8) axis passed through; (R2/R3) stripped lanes are sound views "
                    "for every stride. Not decided: value equality with the filtered plain operation (composition with C01/C05).",
    )


def c11(ctx):
    prog = ctx.prog("dev")
    H = "histogram::histograms::Histogram"
    n = RH.rule_field_own(ctx, prog, H, "counts", ["Histogram::<A>::add_observation", "Histogram::<A>::new"],
                          constructors=["Histogram::<A>::new"])
    n += RH.rule_field_own(ctx, prog, H, "grid", ["Histogram::<A>::new"])
    ctx.floor("R11", n, 2, "writes/borrows/constructions of Histogram fields")
    RH.rule_r16(ctx, prog)
    RH.rule_grid_index_of(ctx, prog)
    roots = [b for b in all_roots(prog) if b.key.startswith("histogram::") or "histogram::" in b.key]
    na = RL.rule_r8(ctx, prog, roots)
    ctx.floor("R8", na, 1, "axis arguments in the histogram module")
    RL.rule_r9(ctx, prog, roots)
    RH.rule_lookup_delegation(ctx, prog)
    # the lookup every count goes through: a miss must be a quiet `None` for every edge set, incl. an empty axis (C13's R20)
    RH.rule_indices_of_tree(ctx, prog)
    RH.rule_bins_len(ctx, prog)
    # … and the premise of that lookup: every Edges value is strictly increasing by construction (a duplicate edge is a zero-width
    # bin: the counts array no longer has one cell per left-closed/right-open bin)
    RH.rule_edges_constructor(ctx, prog)
    return dict(
        level="proof",
        explanation="Accounting structure of the histogram on top of the one lookup primitive (R20: decision tree of Edges::indices_of = "
                    "left-closed/right-open table for every edge-set size incl. 0 and 1, so a miss is a quiet None) and ndarray's IxDyn indexing: (R11) Histogram.counts "
                    "is written/mutably borrowed only by new and add_observation, grid never after new, fields private; (R16) add_observation "
                    "increments counts[idx] by exactly 1 exactly once on the found branch with idx = self.grid.index_of(observation), performs "
                    "no write or call on the reject path and returns BinNotFound; new allocates zeros(grid.shape()) of the stored grid; the "
                    "matrix form inserts every row (axis 0) once, ignores rejects and has no other loop exit; (R9) coordinate j is looked up "
                    "in projection j with the arity asserted first. Order independence follows (commuting += 1).",
    )


def c13(ctx):
    prog = ctx.prog("dev")
    E, B, G = "histogram::bins::Edges", "histogram::bins::Bins", "histogram::grid::Grid"
    est = RH.edges_establishers(prog) or ["Edges<A> as std::convert::From<std::vec::Vec<A>>>::from"]
    n = RH.rule_field_own(ctx, prog, E, "edges", est, constructors=est)
    n += RH.rule_field_own(ctx, prog, B, "edges", ["Bins::<A>::new"], constructors=["Bins::<A>::new"])
    n += RH.rule_field_own(ctx, prog, G, "projections", ["Grid<A> as std::convert::From<std::vec::Vec<histogram::bins::Bins<A>>>>::from"],
                           constructors=["Grid<A> as std::convert::From<std::vec::Vec<histogram::bins::Bins<A>>>>::from"])
    ctx.floor("R11", n, 3, "constructions of Edges, Bins, Grid")
    nm = RH.rule_no_mut_self(ctx, prog, [E, B, G])
    ctx.floor("R11", nm, 15, "methods of Edges/Bins/Grid inspected for &mut self")
    RH.rule_edges_constructor(ctx, prog)
    RH.rule_bins_len(ctx, prog)
    RH.rule_lookup_delegation(ctx, prog)
    RH.rule_grid_index_of(ctx, prog)
    RH.rule_indices_of_tree(ctx, prog)
    # "built from any collection … exactly the distinct input values": the constructors and accessors see the *logical* elements of
    # an array argument – no raw-buffer / memory-order API (an owned array narrowed by slice_move keeps the rest of its allocation)
    nsites = RL.rule_r1(ctx, prog, scope=lambda b_: "histogram::bins" in b_.key or "histogram::grid" in b_.key)
    return dict(
        level="other",
        explanation="(R20) the decision tree of Edges::indices_of, extracted path by path from MIR, equals the left-closed/right-open "
                    "table (Ok(i): last edge → none, else (i,i+1); Err(j): 0 or n → none, else (j−1,j)) on every (variant, index, n≤8) case, "
                    "which with std's binary_search contract on strictly increasing edges is edge_i <= v < edge_{i+1}. "
                    "(R11) Every Edges value is sorted and deduplicated by construction: the only non-derived construction is From<Vec>, "
                    "dominated by sort_unstable then dedup of the same vector; From<Array1> delegates; fields of Edges/Bins/Grid are private, "
                    "no method takes &mut self or lends &mut, each struct is built only by its constructor. (R13) one lookup primitive "
                    "(binary_search in Edges::indices_of) behind Bins::index_of / range_of / Grid::index_of / Grid::shape, so the accessors "
                    "agree by construction; Bins::len arms are 0→0, n→n−1. Trusted: binary_search's Ok/Err contract.",
    )


def _roots_in(prog, *mods):
    return [b for b in all_roots(prog) if any(m in b.key for m in mods)]


def _inlined(prog, roots):
    """the routines with their private, small helpers read in place: a pairing / traversal that was moved into a helper shared by
    several routines is judged per routine, with the routine's own operands"""
    from .facts import inline_calls
    from .rules_zones import helper_filter
    return [inline_calls(prog, b, helper_filter(prog)) for b in roots]


def c09(ctx):
    prog = ctx.prog("dev")
    roots = _inlined(prog, _roots_in(prog, "deviation::DeviationExt"))
    pairs = RL.rule_r9(ctx, prog, roots)
    ctx.floor("R9", len(pairs), 4, "Zip pairings in deviation.rs")
    RL.rule_r1(ctx, prog, scope=lambda b: "deviation::" in b.key)
    only = {k for k in RG.TABLE if k[0] == "DeviationExt"}
    n, e = RG.rule_r6(ctx, prog, only=only)
    ctx.floor("R6", n, 10, "deviation routines in the decision table")
    RT.rule_c09_terms(ctx, prog)
    return dict(
        level="other",
        explanation="(R9/R1) the two operands of every measure are paired by logical index: Zip::from(self).and(other) with undisturbed "
                    "producers, no layout-observing API; (R6) guards and delegation roles; (R19) the kernel each measure accumulates is "
                    "extracted from the closure's MIR and compared by a CAS with the definition: Σ(a−b)², Σ|a−b|, running max of |a−b| "
                    "from 0 with strict >, +1 exactly on a == b, all starting at zero; symmetry under a↔b and value 0 at b = a are "
                    "checked on the extracted terms; l2/mae/mse/rmse/psnr/count_neq are the documented functions (sqrt, /len(self), "
                    "10·log10(maxv²/mse), len − count_eq) of the primitives. Integer exactness follows from the term identity (no overflow "
                    "assumed); float roundoff bounds are not decided.",
    )


def c10(ctx):
    prog = ctx.prog("dev")
    roots = _inlined(prog, _roots_in(prog, "entropy::EntropyExt"))
    pairs = RL.rule_r9(ctx, prog, roots)
    ctx.floor("R9", len(pairs), 4, "Zip::and sites in entropy.rs")
    RL.rule_r1(ctx, prog, scope=lambda b: "entropy::" in b.key)
    only = {k for k in RG.TABLE if k[0] == "EntropyExt"}
    n, e = RG.rule_r6(ctx, prog, only=only)
    ctx.floor("R6", n, 3, "entropy routines in the decision table")
    RT.rule_c10(ctx, prog)
    ctx.floor("R10", len([o for o in ctx.obs if o["rule"] == "R10"]), 6, "zero-branch obligations")
    return dict(
        level="other",
        explanation="(R10) in the three kernels the term is `if x|p == 0 {0} else {…}` with every ln dominated by the non-zero edge, so a zero "
                    "entry contributes exactly zero; (R19) the non-zero branches extracted from MIR equal x·ln x, p·ln q, p·ln(q/p) (CAS), the "
                    "result is the negated plain sum, and the identities KL(p,p) = 0 and H(p,q) = H(p) + KL(p,q) hold termwise on the "
                    "extracted terms; (R9) operands paired by logical index in the order (temp, self, q) with temp fresh of self's shape; "
                    "(R6) guards. NaN propagation follows from the plain sum. Not decided: KL ≥ 0, H ≤ ln n, roundoff.",
    )


def c06(ctx):
    prog = ctx.prog("dev")
    names = ("mean", "weighted_sum", "weighted_mean", "weighted_sum_axis", "weighted_mean_axis", "harmonic_mean", "geometric_mean")
    roots = [prog.method("SummaryStatisticsExt", n) for n in names]
    pairs = RL.rule_r9(ctx, prog, roots)
    ctx.floor("R9", len(pairs), 2, "data/weights zips")
    na = RL.rule_r8(ctx, prog, roots)
    ctx.floor("R8", na, 2, "axis arguments")
    RL.rule_r1(ctx, prog, scope=lambda b: "summary_statistics::" in b.key)
    only = {("SummaryStatisticsExt", n) for n in names}
    n, e = RG.rule_r6(ctx, prog, only=only)
    ctx.floor("R6", n, 7, "mean-family routines in the decision table")
    RT.rule_c06(ctx, prog)
    return dict(
        level="other",
        explanation="(R9/R1/R8) data are paired with weights by logical index (undisturbed iter().zip(weights), no layout API, axis passed "
                    "through); (R19) the value each routine returns is extracted from MIR and compared by a CAS with the definition in exact "
                    "arithmetic: mean = (Σx)/from_usize(len) with the type's own Div, weighted_sum = Σ d·w accumulated from zero() (fold or "
                    "for-loop idiom), weighted_mean = weighted_sum/Σw, harmonic = recip((Σ recip x)/n), geometric = exp((Σ ln x)/n); "
                    "(R13) weighted_sum_axis reduces each lane with a kernel operation-identical to weighted_sum's, paired with the caller's "
                    "weights, and weighted_mean_axis divides it elementwise by weights.sum(). The float clause follows from the standard "
                    "recursive-summation bound given this skeleton (one rounding-bounded term per element, plain summation); the bound "
                    "itself, overflow and the achieved constant are not decided.",
    )


def c07(ctx):
    prog = ctx.prog("dev")
    names = ("weighted_var", "weighted_std", "weighted_var_axis", "weighted_std_axis", "central_moment", "central_moments",
             "kurtosis", "skewness")
    roots = [prog.method("SummaryStatisticsExt", n) for n in names] + [prog.find("summary_statistics::means::inner_weighted_var")]
    pairs = RL.rule_r9(ctx, prog, roots)
    ctx.floor("R9", len(pairs), 1, "data/weights zip in the West loop")
    na = RL.rule_r8(ctx, prog, roots)
    ctx.floor("R8", na, 2, "axis arguments")
    only = {("SummaryStatisticsExt", n) for n in names}
    n, e = RG.rule_r6(ctx, prog, only=only)
    ctx.floor("R6", n, 8, "variance/moment routines in the decision table")
    RT.rule_c07(ctx, prog)
    RT.rule_moment_shift(ctx, prog)
    RT.rule_moment_results(ctx, prog)
    RT.rule_moments_vector(ctx, prog)
    return dict(
        level="other",
        explanation="(R19) the loop of inner_weighted_var is extracted from MIR as the recurrence W'=W+w, m'=m+(w/W')(x−m), "
                    "S'=S+w(x−m)(x−m') and a CAS proves by induction over abstract sums (A=Σw, B=Σwx, C=Σwx²) that it maintains m=B/A, "
                    "S=C−B²/A from the zero state and that the returned S/(W−ddof) equals Σw(x−x̄_w)²/(Σw−ddof) in exact arithmetic – "
                    "including that ddof reaches the denominator; kurtosis = μ4/μ2², skewness = μ3/(√μ2)³ on central_moments(4|3); "
                    "(R13) order 0 ⇒ one(), order 1 ⇒ zero() as constants in both moment routines; weighted_var hands (self, weights, ddof, "
                    "zero) to the kernel and weighted_var_axis maps the same kernel over lanes with the caller's weights/ddof; std = sqrt∘var; "
                    "(R6) guards and ddof assertion order; (R9/R8) pairing and axis. Not decided: forward-error bounds, the sign guarantee, "
                    "the general-order shift/powi/binomial/Horner pipeline beyond shared kernels (see C18).",
    )


def c12(ctx):
    prog = ctx.prog("dev")
    RT.rule_r17(ctx, prog)
    RT.rule_c12_structure(ctx, prog)
    only = {k for k in RG.TABLE if "strategies" in k[0] or "GridBuilder" in k[0]}
    n, e = RG.rule_r6(ctx, prog, only=only)
    ctx.floor("R6", n, 7, "strategy constructors in the decision table")
    RG.rule_from_impls(ctx, prog)
    roots = [b for b in all_roots(prog) if "histogram::strategies" in b.key or "GridBuilder" in b.key]
    RL.rule_r8(ctx, prog, roots)
    RH.rule_gridbuilder(ctx, prog)
    from . import rules_divisor as RD
    RD.rule_divisors(ctx, prog)
    # the property's last clause – a histogram over the built grid counts all n observations – rests on the accounting structure
    # of Histogram (C11's R16/R11): one increment of counts[grid.index_of(row)] per accepted row, counts = zeros(grid.shape())
    H = "histogram::histograms::Histogram"
    nh = RH.rule_field_own(ctx, prog, H, "counts", ["Histogram::<A>::add_observation", "Histogram::<A>::new"], constructors=["Histogram::<A>::new"])
    ctx.floor("R11", nh, 1, "writes/borrows/constructions of Histogram.counts")
    RH.rule_r16(ctx, prog)
    return dict(
        level="other",
        explanation="(R17) in EquiSpaced the edge whose comparison with max ends the counting in n_bins() and the edge pushed by build() are "
                    "extracted from MIR as functions of their loop counters and must be the same operation DAG (a necessary condition for "
                    "floating-point element types: two different rounding sequences disagree for some data), build() iterates 0..=n_bins(), "
                    "edge(0) = min and edge(i+1) − edge(i) = bin_width (CAS); (R11) every EquiSpaced is built by EquiSpaced::new under the "
                    "dominating guard width > 0 ∧ min < max, struct private; (R13) the four strategies pass a.min()/a.max() in that order and "
                    "delegate build/n_bins to the shared builder, Auto dispatches per variant; (R6) empty ⇒ EmptyInput, guard ⇒ Strategy; "
                    "(R33) every generic division of the constructors has a divisor whose interval, as a monotone function of len(a) ≥ 1, "
                    "stays ≥ 1 (no division-by-zero panic for integer elements where Err(Strategy) is promised). "
                    "Not decided: covering of the maximum for floats beyond formula agreement, termination for floats.",
    )


def c18(ctx):
    prog = ctx.prog("dev")
    only = {("QuantileExt", "quantile_axis_mut"), ("Quantile1dExt", "quantile_mut"), ("Quantile1dExt", "quantiles_mut"),
            ("SummaryStatisticsExt", "weighted_std"), ("SummaryStatisticsExt", "weighted_std_axis"),
            ("SummaryStatisticsExt", "weighted_mean_axis"), ("SummaryStatisticsExt", "kurtosis"), ("SummaryStatisticsExt", "skewness")}
    n, e = RG.rule_r6(ctx, prog, only=only)
    ctx.floor("R6", n, 8, "delegating routines in the decision table")
    RR30.rule_r30_delegating(ctx, prog, only={("QuantileExt", "quantiles_axis_mut"), ("Quantile1dExt", "quantiles_mut")})
    # "the entry for index i of bulk selection equals single selection of i": both are proved to be the element of rank i (R25, R24)
    RSG.rule_r25_bulk_selection(ctx, prog)
    RSG.rule_r24_selection(ctx, prog)
    RT.rule_c18_quantiles(ctx, prog)
    RS.rule_r12_callsites(ctx, prog)
    RT.rule_c18_moments(ctx, prog)
    RT.rule_c06(ctx, prog)
    RT.rule_c07(ctx, prog)
    roots = [b for b in all_roots(prog) if "quantile::" in b.key or "sort::" in b.key or b.key.startswith("sort::")]
    pairs = RL.rule_r9(ctx, prog, roots)
    ctx.floor("R9", len(pairs), 3, "zips in quantile/sort")
    na = RL.rule_r8(ctx, prog, roots)
    ctx.floor("R8", na, 8, "axis arguments in quantile/sort")
    return dict(
        level="other",
        explanation="(R13) single forms are the bulk form with one request: quantile_axis_mut = quantiles_axis_mut(axis, [q], strategy) then "
                    "index_axis_move(axis, 0); the 1-D wrappers are the axis forms at Axis(0); per-axis weighted sum/mean/variance/std map the "
                    "operation-identical whole-array kernel over lanes with the caller's weights and ddof (kernel terms extracted from MIR); "
                    "central_moment and central_moments compute the same shifted raw moments (canonical forms equal), the same correction "
                    "term, coefficients from the prefix ..=k, the same Horner kernel, entries pushed for k = 2..=order after [one, zero], and "
                    "the k-th raw moment is independent of the requested order; (R12) both callers of get_many_from_sorted_mut_unchecked pass "
                    "a vector that is sorted then deduped with no later mutation; (R9) j-th output ↔ j-th q, indexes collected and looked up "
                    "under the same predicates; (R8) axis passed through. Not decided: that bulk selection returns what single selection "
                    "would for each index (C02).",
    )


def c15(ctx):
    prog = ctx.prog("dev")
    RZ.rule_r18_partition(ctx, prog)
    RSG.rule_r22_partition(ctx, prog)
    # only data movement is swap (so the result is a permutation: with R22, k = number of strictly smaller elements)
    eff = RE.Effect(ctx, prog, "R4")
    eff.add_entry(prog.method("Sort1dExt", "partition_mut"), [1])
    eff.run()
    ctx.floor("R4", eff.n_swaps, 3, "swap sites in partition_mut")
    # structural side conditions recorded with the clause: the only data movement is swap (R4 on this function) and the
    # pivot is read by a bounds-checked index first (R5)
    mc = RS.MustCheck(ctx, prog, rule="R5[dev]")
    mc.strict(prog.method("Sort1dExt", "partition_mut"), 2)
    return dict(
        level="other",
        explanation="(R18) a zone (difference-bound) abstract interpretation of partition_mut's dev-profile MIR under the precondition "
                    "pivot_index < len discharges every overflow Assert (n−1, i+=1, j−=1, i−1) and every bounds precondition of Index/swap: "
                    "no panic for an in-range pivot, including length 1. (R22) the value-level postcondition is proved by "
                    "candidate-invariant checking over segment predicates on top of the zone states: the invariants a[0] = pv, "
                    "∀k∈[1,i): a[k] < pv, ∀k∈(j,len): a[k] ≥ pv, (i ≤ j ⇒ a[i] ≥ pv) are inductive at the three loop heads and on every "
                    "return path the returned k satisfies a[k] = pv, ∀x<k: a[x] < pv, ∀x>k: a[x] ≥ pv (swap aliasing decided by case "
                    "split). (R4) the only data movement is swap, so the array is a permutation of the input and k is the number of "
                    "elements strictly smaller than the pivot value. Element predicates come only from the comparisons the code makes, "
                    "so the proof holds for every array content, duplicates included. Trusted: Ord is a lawful total order.",
    )


def c01(ctx):
    prog = ctx.prog("dev")
    RT.rule_c01_interpolation(ctx, prog)
    RT.rule_c18_quantiles(ctx, prog)
    RS.rule_r12_callsites(ctx, prog)
    roots = [b for b in all_roots(prog) if "quantile::" in b.key]
    na = RL.rule_r8(ctx, prog, roots)
    ctx.floor("R8", na, 8, "axis arguments in quantile routines")
    pairs = RL.rule_r9(ctx, prog, roots)
    ctx.floor("R9", len(pairs), 2, "zips in quantile routines")
    only = {("QuantileExt", "quantiles_axis_mut"), ("QuantileExt", "quantile_axis_mut"), ("Quantile1dExt", "quantile_mut"), ("Quantile1dExt", "quantiles_mut")}
    RG.rule_r6(ctx, prog, only=only)
    RR30.rule_r30_delegating(ctx, prog, only={("QuantileExt", "quantiles_axis_mut"), ("Quantile1dExt", "quantiles_mut")})
    RR.rule_r26_ranges(ctx, prog)
    RR.rule_c19_indexes(ctx, prog)
    # the neighbours looked up are the order statistics: bulk selection (proved, see C02) on the partition contract
    RSG.rule_r25_bulk_selection(ctx, prog)
    RSG.rule_r22_partition(ctx, prog)
    return dict(
        level="other",
        explanation="The interpolation layer of C01 and the bulk selection beneath it, in exact arithmetic (floating-point rounding, the "
                    "integer 'within one unit' clause and representability are NOT decided): (R25/R22) for every requested index the bulk "
                    "selection stores the element a full sort places there (proved for all inputs and pivot sequences, see C02); (R19) the index arithmetic is (N−1)q with floor / ceil / fract, read off the MIR "
                    "with helpers inlined; the strategy table – Lower/Higher select, Nearest takes lower iff fract < 0.5 with higher its "
                    "complement, Midpoint = (lower+higher)/2 and Linear = lower + fract·(higher−lower) by CAS on the extracted terms, "
                    "needs_lower/needs_higher per strategy; (R13) the bulk routine stores into the j-th result I::interpolate of the "
                    "values looked up at lower_index/higher_index of the j-th q and the axis length, the result has the input's raw_dim "
                    "with the axis entry replaced by qs.len(), the single form is slice 0 along the caller's axis, 1-D wrappers use "
                    "Axis(0); (R12) the index vector handed to the unchecked selection is sorted+deduped; (R8/R9) axis and q↔result "
                    "pairing; (R6) error rows. Representability, integer rounding ('within one unit') and pivot independence are not decided.",
    )


def c08(ctx):
    prog = ctx.prog("dev")
    RT.rule_c08_structure(ctx, prog)
    roots = [prog.method("CorrelationExt", "cov"), prog.method("CorrelationExt", "pearson_correlation")]
    na = RL.rule_r8(ctx, prog, roots)
    ctx.floor("R8", na, 5, "axis arguments in correlation.rs")
    RL.rule_r1(ctx, prog, scope=lambda b: "correlation::" in b.key)
    return dict(
        level="other",
        explanation="Only the exact-arithmetic FORMULA of C08 in matrix form (no roundoff bound, range or invariance is decided – those are "
                    "numerical and static analysis cannot reach them): cov's single success value is (D·Dᵀ)/(n − ddof) elementwise with "
                    "D = self − mean_axis(self, Axis(1)) broadcast along the observation axis, the same D on both sides of the product "
                    "(so entry (i,j) is Σ_k D_ik D_jk and the matrix is symmetric by construction), n = len_of(self, Axis(1)); "
                    "pearson_correlation = cov(ddof₀)/(σσᵀ) with σ = std_axis(self, Axis(1), ddof₀) and the same ddof₀ value in both; "
                    "the observation axis is the documented constant everywhere (R8). Error behaviour on empty input is C17's (D6).",
    )


def c02(ctx):
    prog = ctx.prog("dev")
    RSG.rule_r24_selection(ctx, prog)
    RSG.rule_r25_bulk_selection(ctx, prog)
    RSG.rule_r22_partition(ctx, prog)
    RR30.rule_r30_delegating(ctx, prog, only={("Sort1dExt", "get_many_from_sorted_mut")})
    RZ.rule_r18_partition(ctx, prog)
    # permutation: only swaps move data in the selection family
    eff = RE.Effect(ctx, prog, "R4")
    for n in ("partition_mut", "get_from_sorted_mut", "get_many_from_sorted_mut"):
        eff.add_entry(prog.method("Sort1dExt", n), [1])
    eff.run()
    ctx.floor("R4", eff.n_swaps, 3, "swap sites")
    RU.rule_r14(ctx, prog)
    # bulk form: one entry per distinct index in increasing index order (structural clause)
    RS.rule_r12_callsites(ctx, prog)
    bulk = prog.find("sort::get_many_from_sorted_mut_unchecked")
    okz = False
    z = RSG.bulk_result_zip(bulk)
    if z is not None:
        l0 = RL.producer_chain(prog, bulk, z[3][0])
        okz = l0[3] is None and RT.ds(l0[1])[:2] == ("param", 2)
    ctx.ob("R9", "get_many_from_sorted_mut_unchecked/index-value-map", okz, bulk.where(),
           "the IndexMap is collected from indexes.iter().zip(values) in index order (indexes sorted+deduped by R12)" if okz else
           "the result map is not built by zipping the sorted index list with the values", what="bulk result not keyed in increasing index order")
    return dict(
        level="other",
        explanation="Both selection routines are proved. SINGLE selection (get_from_sorted_mut) is proved for every input and every pivot sequence: (R24) each of its return "
                    "paths is executed abstractly with the contract of partition_mut (proved by R22/R18) and the induction hypothesis for "
                    "the recursive call on the strictly shorter sub-view that contains position i (index shifted by exactly the slice "
                    "start), relations between the value symbols (pivot value, returned value) closed under transitivity; the "
                    "postcondition a[i] = r, ∀x<i a[x] ≤ r, ∀x>i a[x] ≥ r follows on all paths; the pivot index is an unconstrained value, "
                    "so the proof covers all pivot sequences; (R4) only swaps move data, so r is exactly the element a full sort places at "
                    "position i. BULK selection (R25): the recursive routine is proved by representative-element abstract execution: one "
                    "arbitrary position t of the index list (entry value j) is followed through every entry→return path with a three-way "
                    "case split against the binary-search split point; the rest of the index list is described by universally quantified "
                    "range facts (strictly increasing ranges, bounds relative to the partition index, a pending rebasing amount); the "
                    "contracts of partition_mut (R22/R18), slice::binary_search, split_at_mut, the rebasing closure/loop (evaluated "
                    "symbolically to x − (k+1), shown not to wrap) and the induction hypothesis are used, and the hypothesis' "
                    "precondition (strictly increasing, in bounds of the sub-view after rebasing by exactly its start, index and value "
                    "slices covering the same positions) is PROVED at both recursive calls; on return values[t] = w with array[j] = w, "
                    "everything before j ≤ w and everything after ≥ w. The wrapper enters it with the whole array, a private copy of the "
                    "index list and one slot per index, and returns the pairs (indexes[t], values[t]) in list order; the list is sorted "
                    "and deduplicated at every call site (R12) and bounds-checked (R5) – for the quantile call sites in-bounds-ness "
                    "rests on q ∈ [0,1] (guard, C17) and the floor/ceil index formula (C01). Partial correctness; "
                    "assumes Ord is a lawful total order.",
    )


def c19(ctx):
    prog = ctx.prog("dev")
    RR.rule_c19_indexes(ctx, prog)
    RR.rule_c19_fraction_monotone(ctx, prog)
    RR.rule_r26_ranges(ctx, prog)
    # the strategy table (Lower/Higher return their neighbour, Nearest switches once at fract = 0.5) and the lookup of the
    # neighbours in the bulk routine; the neighbours are the order statistics (bulk selection proved: R25 on R22)
    RT.rule_c01_interpolation(ctx, prog)
    RSG.rule_r25_bulk_selection(ctx, prog)
    RSG.rule_r22_partition(ctx, prog)
    RS.rule_r12_callsites(ctx, prog)      # the proved bulk selection is entered with a sorted, deduplicated index list
    # the laws relate result j to request q_j and lane elements by logical position: no memory-order API in the quantile / selection code
    RL.rule_r1(ctx, prog, scope=lambda b_: "quantile::" in b_.key or "sort::" in b_.key)
    eff = RE.Effect(ctx, prog, "R4")
    for n in ("partition_mut", "get_many_from_sorted_mut"):
        eff.add_entry(prog.method("Sort1dExt", n), [1])
    eff.run()
    ctx.floor("R4", eff.n_swaps, 2, "swap sites")
    return dict(
        level="other",
        explanation="Order laws of the quantiles, decided clause by clause on the extracted formulas (exact arithmetic; float rounding not "
                    "modelled): (R27) lower_index/higher_index are floor/ceil of ONE quantity x = q·(len−1), which is non-decreasing in q "
                    "(monotonicity typing with len−1 ≥ 0), 0 at q = 0 and len−1 at q = 1, and the fraction is fract of the same x; every "
                    "strategy is non-decreasing in the fraction at fixed neighbours lower ≤ higher; (R26) for every strategy and element-type "
                    "family lower ≤ result ≤ higher, and with higher = lower the result is exactly lower (linear-bound range analysis) – so "
                    "Lower ≤ {Nearest, Midpoint, Linear} ≤ Higher, all coincide when x is integral, q = 0 / q = 1 return the minimum / maximum; "
                    "(R19/R13) the strategy table and the lookup of both neighbours in one map; (R25/R22/R4) the neighbours are the order "
                    "statistics of the lane, a function of its multiset only – hence invariance under permutation of the lane and, with the "
                    "above, monotonicity in q across segments (S(q1) ≤ higher(q1) ≤ lower(q2) ≤ S(q2)). The relabelling clause for "
                    "Lower/Higher/Nearest is a parametricity fact: a type-level witness (thorough tier) instantiates them with an element type "
                    "that offers only Ord + Clone. Overflow of intermediates breaks bracketing for signed/float lanes: defect D8, known finding.",
    )


PROPS = {"C19": c19, "C01": c01, "C02": c02, "C08": c08, "C06": c06, "C15": c15, "C18": c18, "C12": c12, "C07": c07, "C09": c09, "C09": c09, "C10": c10, "C11": c11, "C13": c13, "C14": c14, "C05": c05, "C20": c20, "C16": c16, "C17": c17, "C04": c04, "C03": c03}


# rules with a planted must-fire positive in /verif/fixtures, per property (run on every check)
FIXTURE_RULES = {
    "C02": ["R22", "R18", "R4", "R24", "R25"],
    "C08": ["R8", "R1"],
    "C01": ["R19", "R8", "R9", "R6", "R25", "R22", "R26"],
    "C19": ["R26", "R25", "R22", "R19", "R4"],
    "C03": ["R4", "R1"], "C04": ["R3", "R14", "R1", "R21"], "C05": ["R6", "R1"], "C06": ["R9", "R1", "R8", "R19"], "C07": ["R9", "R8", "R6", "R19"],
    "C09": ["R9", "R1", "R19", "R6"], "C10": ["R10", "R9", "R1", "R6"], "C11": ["R8", "R9"], "C12": ["R6", "R8"], "C13": ["R9"],
    "C14": ["R8", "R6"], "C15": ["R18", "R5", "R22"], "C16": ["R5", "R18"], "C17": ["R6"], "C18": ["R9", "R8", "R6", "R19"], "C20": ["R1", "R8", "R9"],
}
