"""R7 NANCMP (DESIGN.md §4 C05, C14): NaN discipline, whole-array traversal and comparator direction of the
eight extremum routines."""
from .facts import callee_name, fmt, strip, walk
from .rules_layout import producer_chain, short, up

CMP_BOOL = {"lt": "<", "le": "<=", "gt": ">", "ge": ">="}
FLIP = {"<": ">", "<=": ">=", ">": "<", ">=": "<="}
NEG = {"<": ">=", "<=": ">", ">": "<=", ">=": "<"}
TRAVERSAL_OK = {"indexed_iter", "iter", "into_iter", "by_ref", "view"}


def group_of(prog, root):
    return [root] + prog.closures_of(root)


_DELEGATION = {}


def delegate_target(prog, root):
    """a routine that only forwards to a private helper (`extremum(self, Ordering::Less)`) is analysed as that helper, with the
    helper's parameters mapped to the arguments of the call: → (body to analyse, {helper param index: argument expression})"""
    calls = [(bb, t) for bb, t in root.calls()]
    if len(calls) != 1:
        return root, {}
    bb, t = calls[0]
    cb = prog.local_callee_body(t)
    if cb is None or cb.is_closure or cb.key in prog.exported or cb.key == root.key:
        return root, {}
    r = strip(root.return_expr())
    me = strip(root.call_expr(bb))
    if r != me:
        return root, {}
    args = [strip(a) for a in root.call_arg_exprs(bb)]
    if not args or args[0][:2] != ("param", 1):
        return root, {}
    _DELEGATION[cb.key] = {i + 1: a for i, a in enumerate(args)}
    return cb, _DELEGATION[cb.key]


def through_delegation(prog, pb, pe):
    """a helper parameter → the argument the forwarding routine passes for it"""
    pe = strip(pe)
    m = _DELEGATION.get(pb.key)
    if m and isinstance(pe, tuple) and pe[0] == "param" and pe[1] in m:
        return m[pe[1]]
    return pe


def contains(e, pred):
    return any(pred(x) for x in walk(e))


def role_of(prog, body, e, root):
    """'new' (traversal element), 'best' (running extremum) or None"""
    e = strip(e)
    is_new = False
    is_best = False
    for x in walk(e):
        if x[0] == "call" and x[1] == "next":
            is_new = True
        if x[0] == "param" and body.is_closure:
            # closure parameters: _1 env, first value param = accumulator, last = element/item
            last = body.arg_count
            first_val = 2
            if x[1] == last and last > first_val:
                is_new = True
            elif x[1] == first_val and last > first_val:
                is_best = True
            elif x[1] == first_val and last == first_val:
                # the single value parameter of a closure handed to and_then / map / map_or on R: it is (the payload of) R
                site = prog.closure_site(body.key)
                if site is not None:
                    parent = site[0]
                    for cbb, ct in parent.calls():
                        if callee_name(ct) in ("and_then", "map", "map_or", "map_or_else", "then"):
                            cargs = parent.call_arg_exprs(cbb)
                            if any(isinstance(strip(a), tuple) and strip(a)[:3] == ("agg", "closure", body.key) for a in cargs[1:]):
                                r_ = role_of(prog, parent, cargs[0], root)
                                is_new = is_new or r_ == "new"
                                is_best = is_best or r_ == "best"
        if x[0] == "upvar" and body.is_closure:
            # captured from the enclosing closure (the fold's own element / accumulator)
            pb_, pe_ = up(prog, body, x)
            if pb_ is not body:
                r_ = role_of(prog, pb_, pe_, root)
                is_new = is_new or r_ == "new"
                is_best = is_best or r_ == "best"
        if x[0] == "phi":
            is_best = True
    if is_new and not is_best:
        return "new"
    if is_best and not is_new:
        return "best"
    return None


def exclusive_region(body, sw, succ):
    others = [s for s in body.succ(sw) if s != succ]
    mine = body.reachable_from(succ, avoid=(sw,))
    theirs = set()
    for o in others:
        theirs |= body.reachable_from(o, avoid=(sw,))
    return mine - theirs


def region_roles(prog, body, region, root):
    roles = set()
    for bb in sorted(region):
        for si, s in enumerate(body.blocks[bb]["stmts"]):
            if s["k"] != "assign":
                continue
            d = s["dst"]
            if d["p"]:
                continue
            if len(body.defs_of(d["l"])) < 2:
                continue
            r = role_of(prog, body, body.rvalue_expr(s["rv"], bb, si), root)
            if r:
                roles.add(r)
    return roles


def direction_of(prog, root):
    """('min'|'max', description) from the comparison that decides replacement, or (None, why)"""
    found = []
    for b in group_of(prog, root):
        # Ord::min / Ord::max on (best, new)
        for bb, t in b.calls():
            nm = callee_name(t)
            tr = t["callee"].get("trait", "")
            if nm in ("min", "max") and tr.endswith("cmp::Ord"):
                args = b.call_arg_exprs(bb)
                rs = {role_of(prog, b, a, root) for a in args}
                if rs == {"new", "best"}:
                    found.append((nm, "Ord::%s(best, new)" % nm, b, bb))
        for sw in b.live_blocks():
            t = b.term(sw)
            if t["k"] != "switch":
                continue
            de = strip(b.switch_discr_expr(sw))
            cmp_call = None
            mode = None
            ordconst = None
            truth_flip = False
            e = de
            while isinstance(e, tuple) and e[0] == "unop" and e[1] == "Not":
                truth_flip = not truth_flip
                e = strip(e[2])
            if isinstance(e, tuple) and e[0] == "call" and e[1] in CMP_BOOL and len(e[3]) == 2:
                cmp_call, mode = e, "bool"
            elif isinstance(e, tuple) and e[0] == "call" and e[1] in ("eq", "ne") and len(e[3]) == 2:
                # ORD == Ordering::X
                for x, y in ((e[3][0], e[3][1]), (e[3][1], e[3][0])):
                    y2 = strip(y)
                    if isinstance(y2, tuple) and y2[0] in ("upvar", "param"):
                        pb_, pe_ = up(prog, b, y2)
                        y2 = strip(through_delegation(prog, pb_, pe_))
                    if isinstance(y2, tuple) and y2[0] == "agg" and y2[1] == "std::cmp::Ordering":
                        pcs = [z for z in walk(x) if z[0] == "call" and z[1] in ("partial_cmp", "cmp")]
                        if pcs:
                            cmp_call, mode, ordconst = pcs[0], "ordeq", y2[2]
                            if e[1] == "ne":
                                truth_flip = not truth_flip
            elif isinstance(e, tuple) and e[0] == "discr":
                pcs = [z for z in walk(e[1]) if z[0] == "call" and z[1] in ("partial_cmp", "cmp")]
                inner = strip(e[1])
                # only the switch on the Ordering itself (not on the Try/Option wrappers)
                if pcs and not (isinstance(inner, tuple) and inner[0] == "call" and inner[1] in ("branch", "ok_or", "partial_cmp", "cmp") and False):
                    if isinstance(inner, tuple) and inner[0] == "call" and inner[1] == "branch":
                        pcs = []
                    if pcs and "Ordering" in (t.get("discr_ty") or "") or (pcs and t.get("discr_ty") in ("i8",)):
                        cmp_call, mode = pcs[0], "orddiscr"
            if cmp_call is None:
                continue
            ra = role_of(prog, b, cmp_call[3][0], root)
            rb = role_of(prog, b, cmp_call[3][1], root)
            if {ra, rb} != {"new", "best"}:
                continue
            # per successor: replace or keep
            outcomes = {}
            succs = []
            for v, tgt in t["arms"]:
                succs.append((v, tgt))
            succs.append(("otherwise", t["otherwise"]))
            for v, tgt in succs:
                if b.term(tgt)["k"] == "unreachable":
                    continue
                roles = region_roles(prog, b, exclusive_region(b, sw, tgt) | {tgt} if len(b.preds(tgt)) == 1 else exclusive_region(b, sw, tgt), root)
                outcomes[v] = "replace" if "new" in roles else "keep"
            rel = None
            if mode == "bool":
                op = CMP_BOOL[cmp_call[1]]
                # value 0 = false branch
                rep_true = outcomes.get("otherwise") == "replace"
                rep_false = outcomes.get(0) == "replace"
                if rep_true == rep_false:
                    continue
                truth = rep_true
                if truth_flip:
                    truth = not truth
                r = op if truth else NEG[op]
                rel = r if ra == "new" else FLIP[r]
            elif mode == "ordeq":
                rep_true = outcomes.get("otherwise") == "replace"
                rep_false = outcomes.get(0) == "replace"
                if rep_true == rep_false:
                    continue
                truth = rep_true
                if truth_flip:
                    truth = not truth
                if not truth:
                    continue   # replace on "not Less": not a recognised extremum scan
                r = {"Less": "<", "Greater": ">"}.get(ordconst)
                if r is None:
                    continue
                rel = r if ra == "new" else FLIP[r]
            else:
                # discriminant of Ordering: Less = -1 (255 as u8 / 18446744073709551615…), Equal = 0, Greater = 1
                rep = [v for v, o in outcomes.items() if o == "replace"]
                if len(rep) != 1:
                    continue
                v = rep[0]
                if v == "otherwise":
                    seen = {x for x, _ in t["arms"]}
                    cands = [c for c in (-1, 0, 1) if not any(_ord_val(s2) == c for s2 in seen)]
                    if len(cands) != 1:
                        continue
                    val = cands[0]
                else:
                    val = _ord_val(v)
                r = {-1: "<", 1: ">"}.get(val)
                if r is None:
                    continue
                rel = r if ra == "new" else FLIP[r]
            if rel:
                found.append(("min" if rel in ("<", "<=") else "max",
                              "replace iff new %s best (%s on %s,%s)" % (rel, cmp_call[1], ra, rb), b, sw))
    kinds = {f[0] for f in found}
    if len(kinds) == 1:
        return found[0][0], "; ".join(f[1] for f in found)
    if not found:
        return None, "no comparison between the traversal element and the running extremum was recognised"
    return None, "contradictory comparisons: " + "; ".join(f[1] for f in found)


def _ord_val(v):
    if isinstance(v, str):
        try:
            v = int(v)
        except ValueError:
            return None
    if v in (255, 65535, 4294967295, 18446744073709551615, 340282366920938463463374607431768211455):
        return -1
    if v in (0, 1):
        return v
    return None


PLAIN = {"argmin": "min", "min": "min", "argmax": "max", "max": "max"}
SKIPNAN = {"argmin_skipnan": "min", "min_skipnan": "min", "argmax_skipnan": "max", "max_skipnan": "max"}


def rule_r7_direction(ctx, prog, table, rule="R7"):
    n = 0
    for name, want in table.items():
        root = prog.method("QuantileExt", name)
        root, _pm = delegate_target(prog, root)
        got, why = direction_of(prog, root)
        n += 1
        ctx.ob(rule, "%s/direction" % name, got == want, root.where(),
               "%s-type scan: %s" % (got, why) if got == want else
               "expected a %s-type scan (replace the running value iff the new element is %s), found %s: %s"
               % (want, "smaller" if want == "min" else "greater", got, why), what="comparator direction")
    return n


def rule_r7_plain(ctx, prog, rule="R7"):
    """NaN discipline + whole-array traversal + index/value pairing of argmin/argmax/min/max"""
    for name in PLAIN:
        root = prog.method("QuantileExt", name)
        root, _pm = delegate_target(prog, root)
        grp = group_of(prog, root)
        # (i) every element comparison is partial_cmp → ok_or(UndefinedOrder) → ?
        n_pc = 0
        for b in grp:
            for bb, t in b.calls():
                c = t["callee"]
                tr = c.get("trait", "")
                nm = callee_name(t)
                if not (tr.endswith("cmp::PartialOrd") or tr.endswith("cmp::Ord")):
                    continue
                st = c.get("self_ty", "")
                if st not in ("A", "&A", "&&A"):
                    continue
                key = "%s/element-comparison/%s" % (name, nm)
                if nm != "partial_cmp":
                    ctx.ob(rule, key, False, b.where(bb, "term"),
                           "elements are compared with `%s`, which silently treats an unordered pair (NaN) as false instead of "
                           "reporting UndefinedOrder" % nm, what="NaN-unsafe comparison")
                    continue
                n_pc += 1
                me = b.call_expr(bb)
                # all uses must be ok_or(me, UndefinedOrder) then `?`
                ok = False
                other_use = None
                for cbb, ct in b.calls():
                    if cbb == bb:
                        continue
                    args = b.call_arg_exprs(cbb)
                    for a in args:
                        if strip(a) == me:
                            if callee_name(ct) == "ok_or" and len(args) == 2:
                                ev = strip(args[1])
                                if isinstance(ev, tuple) and ev[0] == "agg" and ev[2] == "UndefinedOrder":
                                    oo = b.call_expr(cbb)
                                    tried = any(callee_name(t2) == "branch" and strip(b.call_arg_exprs(b2)[0]) == oo
                                                for b2, t2 in b.calls())
                                    ok = ok or tried
                                    continue
                            if callee_name(ct) == "ok_or_else" and len(args) == 2:
                                # ok_or_else(|| UndefinedOrder) – a closure that only builds the error – then `?` (possibly through a
                                # local holding the Result)
                                c_ = strip(args[1])
                                if isinstance(c_, tuple) and c_[:2] == ("agg", "closure") and c_[2] in prog.bodies and not list(prog.bodies[c_[2]].calls()):
                                    ev = strip(prog.bodies[c_[2]].return_expr())
                                    if isinstance(ev, tuple) and ev[0] == "agg" and ev[2] == "UndefinedOrder":
                                        oo = b.call_expr(cbb)
                                        tried = any(callee_name(t2) == "branch" and strip(b.call_arg_exprs(b2)[0]) == oo for b2, t2 in b.calls())
                                        if tried:
                                            ok = True
                                            continue
                            other_use = callee_name(ct)
                if not ok and other_use is None:
                    # match form: `match a.partial_cmp(b) { None => return Err(UndefinedOrder), Some(..) => … }` – the None arm of a
                    # switch on the result's discriminant leads only to returns of Err(UndefinedOrder)
                    for sbb in b.live_blocks():
                        st = b.term(sbb)
                        if st["k"] != "switch":
                            continue
                        de = strip(b.switch_discr_expr(sbb))
                        if not (isinstance(de, tuple) and de[0] == "discr" and strip(de[1]) == me):
                            continue
                        none_tgt = [tgt for v, tgt in st["arms"] if v == 0]
                        if not none_tgt and st["otherwise"] is not None and all(v != 0 for v, _ in st["arms"]):
                            none_tgt = [st["otherwise"]]
                        if len(none_tgt) != 1:
                            continue
                        # every definition of the return place reachable first from the None arm is Err(UndefinedOrder)
                        seen, stack, rets = set(), [none_tgt[0]], []
                        while stack:
                            x = stack.pop()
                            if x in seen or x == sbb:
                                continue
                            seen.add(x)
                            found = False
                            for si, s_ in enumerate(b.blocks[x]["stmts"]):
                                if s_["k"] == "assign" and s_["dst"]["l"] == 0 and not s_["dst"]["p"]:
                                    rets.append(strip(b.rvalue_expr(s_["rv"], x, si)))
                                    found = True
                                    break
                            if not found:
                                stack.extend(b.succ(x))
                        ok = bool(rets) and all(isinstance(r_, tuple) and r_[0] == "agg" and r_[2] == "Err" and
                                                isinstance(strip(r_[3][0]), tuple) and strip(r_[3][0])[0] == "agg" and strip(r_[3][0])[2] == "UndefinedOrder"
                                                for r_ in rets)
                ctx.ob(rule, key, ok and other_use is None, b.where(bb, "term"),
                       "partial_cmp(..).ok_or(UndefinedOrder)? – an unordered pair is reported" if ok and other_use is None else
                       "the result of partial_cmp is not turned into UndefinedOrder by `.ok_or(UndefinedOrder)?` (used by `%s`)" % other_use,
                       what="NaN not reported")
        ctx.ob(rule, "%s/has-partial_cmp" % name, n_pc >= 1, root.where(),
               "%d partial_cmp site(s)" % n_pc if n_pc else "anchor missing: no partial_cmp on elements", what="anchor missing")
        # (ii) traversal over the whole receiver: the comparing scan must be a complete, fresh traversal of self – an
        # iterator that was advanced before the scan (first element taken out as the seed) leaves a one-element array
        # without any comparison, so a lone NaN is not reported
        trav_ok = False
        trav_detail = "no traversal of self found"
        scans = []      # (body, bb, receiver expression, description)
        advances = []   # (body, bb, receiver expression, callee)
        for b in grp:
            for bb, t in b.calls():
                nm = callee_name(t)
                kr = t["callee"].get("krate")
                args = b.call_arg_exprs(bb)
                if not args:
                    continue
                a0 = strip(args[0])
                if nm == "fold" and kr == "ndarray":
                    if a0[:2] == ("param", 1):
                        scans.append((b, bb, a0, "fold over the whole receiver"))
                    else:
                        trav_detail = "fold over `%s`, not over self" % fmt(a0)
                    continue
                if kr in ("core", "std", "alloc") and nm in ("next", "fold", "try_fold", "for_each", "try_for_each", "nth", "skip", "step_by", "take",
                                                               "next_back", "advance_by", "skip_while", "take_while", "filter", "nth_back", "rev", "last"):
                    rb, re_, chain, bad = producer_chain(prog, b, args[0])
                    if strip(re_)[:2] != ("param", 1):
                        continue
                    extra = [c for c in chain if c not in TRAVERSAL_OK]
                    in_loop = t.get("target") is not None and bb in b.reachable_from(t["target"])
                    if nm == "next" and in_loop:
                        if extra:
                            trav_detail = "the scan goes through `%s`: some elements (e.g. a NaN in first position) are never compared" % ",".join(extra)
                            scans.append((b, bb, a0, None))
                        else:
                            scans.append((b, bb, a0, "loop over %s of the whole receiver" % "→".join(reversed(chain))))
                    elif nm in ("fold", "try_fold", "for_each", "try_for_each"):
                        if extra:
                            trav_detail = "the scan goes through `%s`: some elements are never compared" % ",".join(extra)
                            scans.append((b, bb, a0, None))
                        else:
                            scans.append((b, bb, a0, "%s over %s of the whole receiver" % (nm, "→".join(reversed(chain)))))
                    elif nm != "last":
                        advances.append((b, bb, a0, nm))
        good = [sc for sc in scans if sc[3] is not None]
        if good and len(good) == len(scans):
            trav_ok, trav_detail = True, good[0][3]
            for (sb, sbb, se, _d) in good:
                for (ab, abb, ae, anm) in advances:
                    if ab is sb and ae == se:
                        trav_ok = False
                        trav_detail = ("the iterator of the scan is advanced by `%s` before the scan: the element taken out is never the "
                                       "subject of a comparison when it is the only one (a lone NaN is not reported)" % anm)
        ctx.ob(rule, "%s/whole-array" % name, trav_ok, root.where(), trav_detail, what="not every element is compared")
        # (iii) value forms: what is handed back is the scan's running value itself – the fold's own result, or the variable the
        # scanning loop updates – with nothing substituted afterwards (`.map(|_| first)`, `.and(first)`, a clamp, ...)
        if not name.startswith("arg") and good:
            from .rules_result import payload_local
            okr, rdetail = True, "the scan's own result is returned"
            ex = root.exits()
            n_succ = 0
            for d in (root.reaching_defs(0, ex[0], "term") if ex else []):
                e = strip(root.def_expr(0, d))
                if isinstance(e, tuple) and ((e[0] == "agg" and e[2] == "Err") or (e[0] == "call" and e[1] == "from_residual")):
                    continue
                n_succ += 1
                if d[0] != "entry" and d[1] == "term":
                    if not any(sb is root and sbb == d[0] for (sb, sbb, _e, _d) in good):
                        okr, rdetail = False, "the success value is `%s`, not the result of the scan" % fmt(e)[:100]
                    continue
                L = payload_local(root, d)
                in_loop = False
                if L is not None and any(sb is root and list(root.defs_of(L)) == [(sbb, "term")] for (sb, sbb, _e, _d) in good):
                    continue          # `let r = self.fold(..); r` – the scan call's own result, moved
                if L is not None:
                    for (sb, sbb, _e, _d) in good:
                        if sb is not root:
                            continue
                        tgt = root.term(sbb).get("target")
                        loop = {x for x in root.reachable_from(tgt) if sbb in root.reachable_from(x)} if tgt is not None else set()
                        if any(dd[0] in loop for dd in root.defs_of(L) if dd[0] != "entry"):
                            in_loop = True
                if not in_loop:
                    okr, rdetail = False, "the success value is `%s`, not the running extremum of the scan" % fmt(e)[:100]
            ctx.ob(rule, "%s/returns-the-scan-result" % name, okr and n_succ > 0, root.where(), rdetail,
                   what="extremum replaced after the scan")
        # (iv) arg forms: the returned pattern and the running value are updated together from one indexed_iter item
        if name.startswith("arg"):
            b = root
            ok = False
            detail = "no block updates both the running value and the running index from the same item"
            for bb in b.live_blocks():
                got = {}
                for si, s in enumerate(b.blocks[bb]["stmts"]):
                    if s["k"] == "assign" and not s["dst"]["p"] and len(b.defs_of(s["dst"]["l"])) >= 2:
                        e = strip(b.rvalue_expr(s["rv"], bb, si))
                        # item.0 / item.1 of next(indexed_iter)
                        x = e
                        fld = None
                        while isinstance(x, tuple) and x[0] in ("field", "downcast"):
                            if x[0] == "field" and fld is None and x[2] in ("0", "1") and isinstance(strip(x[1]), tuple) and strip(x[1])[0] == "field":
                                fld = x[2]
                            x = strip(x[1])
                        if isinstance(x, tuple) and x[0] == "call" and x[1] == "next" and fld is not None:
                            got[fld] = s["dst"]["l"]
                        # the pair kept in one tuple variable: `best = (index, value)` assigned from item.0 / item.1 of one item
                        if s["rv"]["k"] == "agg" and not s["rv"].get("adt") and not s["rv"].get("closure") and len(s["rv"]["fields"]) == 2 and \
                                isinstance(e, tuple) and e[0] == "agg":
                            flds = []
                            for fe in e[3]:
                                x = strip(fe)
                                fld = None
                                while isinstance(x, tuple) and x[0] in ("field", "downcast"):
                                    if x[0] == "field" and fld is None and x[2] in ("0", "1") and isinstance(strip(x[1]), tuple) and strip(x[1])[0] == "field":
                                        fld = x[2]
                                    x = strip(x[1])
                                flds.append(fld if (isinstance(x, tuple) and x[0] == "call" and x[1] == "next") else None)
                            if flds == ["0", "1"]:
                                pair_local = s["dst"]["l"]
                                got = {"0": pair_local, "1": pair_local}
                                tuple_mode = True
                if set(got) == {"0", "1"} and got["0"] == got["1"]:
                    # tuple form: returned = best.0 ; seed = (zeros index, first())
                    from .rules_terms import unwrap_try
                    from .facts import walk as _walk
                    L = got["0"]
                    ok = True
                    detail = "index and value kept together in the tuple `%s`, replaced as a whole by one item" % b.local_name(L)
                    n_ok = n_idx = 0
                    for d in b.reaching_defs(0, b.exits()[0], "term"):
                        e = strip(b.def_expr(0, d))
                        if isinstance(e, tuple) and e[0] == "agg" and e[2] == "Ok":
                            n_ok += 1
                            inner = strip(e[3][0])
                            if isinstance(inner, tuple) and inner[0] == "field" and inner[2] == "0" and isinstance(strip(inner[1]), tuple) and \
                                    strip(inner[1])[0] == "phi" and strip(inner[1])[1] == L:
                                n_idx += 1
                    if not (n_idx >= 1 and n_idx == n_ok):
                        ok = False
                        detail = "the returned value is not the index component of the running (index, value) pair"
                    for dd in b.defs_of(L):
                        if dd[0] == "entry":
                            continue
                        e0 = strip(b.def_expr(L, dd))
                        if any(isinstance(x_, tuple) and x_[0] == "call" and x_[1] == "next" for x_ in _walk(e0)):
                            continue
                        if not (isinstance(e0, tuple) and e0[0] == "agg" and len(e0[3]) == 2):
                            continue
                        seed = unwrap_try(e0[3][1])
                        if not (isinstance(seed, tuple) and seed[0] == "call" and seed[1] == "first" and strip(seed[3][0])[:2] == ("param", 1)):
                            ok = False
                            detail = "the running value is seeded with `%s`, not with self.first(): it does not belong to the seed index" % fmt(seed)[:80]
                    break
                if set(got) == {"0", "1"}:
                    # the returned value is the index variable
                    r = strip(b.return_expr())
                    ok = True
                    detail = "index variable `%s` and value variable `%s` updated together from one item" % (
                        b.local_name(got["0"]), b.local_name(got["1"]))
                    fin = [d for d in b.reaching_defs(0, b.exits()[0], "term")]
                    okret = False
                    n_ok = n_idx = 0
                    for d in fin:
                        e = strip(b.def_expr(0, d))
                        if isinstance(e, tuple) and e[0] == "agg" and e[2] == "Ok":
                            n_ok += 1
                            inner = strip(e[3][0])
                            if isinstance(inner, tuple) and inner[0] == "phi" and inner[1] == got["0"]:
                                n_idx += 1
                    # every success value is the tracked index (no second success path with a default / recomputed index)
                    okret = n_idx >= 1 and n_idx == n_ok
                    if not okret:
                        ok = False
                        detail = "the returned value is not the index variable updated with the running extremum"
                    # the pair starts consistent: the running value is seeded with the element at the seed index, i.e. the
                    # logical first element (the seed index is the all-zero index, checked by initial-index)
                    from .rules_terms import unwrap_try
                    from .facts import walk as _walk
                    for dd in b.defs_of(got["1"]):
                        if dd[0] == "entry":
                            continue
                        e0 = strip(b.def_expr(got["1"], dd))
                        if any(isinstance(x_, tuple) and x_[0] == "call" and x_[1] == "next" for x_ in _walk(e0)):
                            continue
                        seed = unwrap_try(e0)
                        if not (isinstance(seed, tuple) and seed[0] == "call" and seed[1] == "first" and strip(seed[3][0])[:2] == ("param", 1)):
                            ok = False
                            detail = "the running value is seeded with `%s`, not with self.first(): it does not belong to the seed index" % fmt(seed)[:80]
            ctx.ob(rule, "%s/index-value-pairing" % name, ok, root.where(), detail, what="index not paired with the extremum")
            rule_initial_index(ctx, prog, root, name, rule)
    return len(PLAIN)


def rule_initial_index(ctx, prog, root, name, rule="R7"):
    """the running index starts at the logical index of `first()`: D::zeros(self.ndim()) – for every dimensionality incl. IxDyn"""
    ok = False
    detail = "no initial index found"
    for b in [root] + prog.closures_of(root):
        for bb, t in b.calls():
            if callee_name(t) == "into_pattern":
                a = strip(b.call_arg_exprs(bb)[0])
                if isinstance(a, tuple) and a[0] == "call" and a[1] == "zeros" and a[3]:
                    n = strip(a[3][0])
                    ok = isinstance(n, tuple) and n[0] == "call" and n[1] == "ndim" and strip(n[3][0])[:2] == ("param", 1)      # the receiver, whatever it is called
                    detail = "initial index = D::zeros(self.ndim()).into_pattern()" if ok else "initial index is zeros(%s)" % fmt(n)
                else:
                    detail = "initial index is `%s`: not the all-zero index of the array's own dimensionality (wrong for IxDyn)" % fmt(a)[:80]
    if not ok and detail == "no initial index found" and name.endswith("skipnan"):
        # no placeholder index at all: the returned index is the one stored with the running extremum inside the fold's
        # accumulator, i.e. every returned index was produced by the traversal itself
        vals = []
        ex = root.exits()
        for d in (root.reaching_defs(0, ex[0], "term") if ex else []):
            e = strip(root.def_expr(0, d))
            if isinstance(e, tuple) and e[0] == "agg" and e[2] == "Ok":
                vals.append(strip(e[3][0]))
        from_fold = bool(vals)
        for v in vals:
            x = v
            while isinstance(x, tuple) and x[0] in ("field", "downcast"):
                x = strip(x[1])
            from_fold = from_fold and isinstance(x, tuple) and x[0] == "call" and x[1] in ("indexed_fold_skipnan", "fold")
        no_seed = not any(callee_name(t) in ("default", "zeros", "into_pattern", "from_elem") for b in [root] + prog.closures_of(root) for _, t in b.calls())
        if from_fold and no_seed:
            ok = True
            detail = "no placeholder index: the returned index is taken from the accumulator of the indexed fold (only visited indexes can be returned)"
    ctx.ob(rule, "%s/initial-index" % name, ok, root.where(), detail, what="initial index not the logical first index for every dimensionality")
