"""R15 SKIPNAN (DESIGN.md §4 C14): the user function is called exactly on the Some branch of try_as_not_nan(item),
once per traversal item, with that value; the accumulator passes through otherwise; lane forms strip then map."""
from .facts import callee_name, fmt, strip, walk
from .rules_layout import producer_chain, short, up
from .rules_unsafe import branch_dominates

USER_CALL = {"call_mut", "call", "call_once"}

# routine -> (ndarray traversal, how the item is presented to the closure)
TRAVERSALS = {
    "fold_skipnan": dict(trav="fold", whole="self", item="param3", acc=True, indexed=False),
    "indexed_fold_skipnan": dict(trav="fold", whole="indexed_iter(self)", item="param3.1", acc=True, indexed=True),
    "visit_skipnan": dict(trav="for_each", whole="self", item="param2", acc=False, indexed=False),
    "fold_axis_skipnan": dict(trav="fold_axis", whole="self", item="param3", acc=True, indexed=False, axis=True),
}


def _filter_map_form(prog, root, bb):
    """True when the fold at bb is `indexed_iter(self).filter_map(C1).fold(init, f)` with C1 = |(i, e)| try_as_not_nan(e).map(|nn| (i, nn));
    a string (reason) when it is a filter_map form that does not qualify; None otherwise"""
    args = [strip(a) for a in root.call_arg_exprs(bb)]
    if len(args) != 3:
        return None
    it = args[0]
    if not (isinstance(it, tuple) and it[0] == "call" and it[1] == "filter_map" and len(it[3]) == 2):
        return None
    src, c1e = strip(it[3][0]), strip(it[3][1])
    if not (isinstance(src, tuple) and src[0] == "call" and src[1] == "indexed_iter" and strip(src[3][0])[:2] == ("param", 1)):
        return "filter_map is not applied to indexed_iter(self)"
    if args[1][:2] != ("param", 2) or args[2][:2] != ("param", 3):
        return "the fold does not start from the caller's accumulator with the caller's function"
    if not (isinstance(c1e, tuple) and c1e[:2] == ("agg", "closure") and c1e[2] in prog.bodies):
        return "filter_map's argument is not a closure of this routine"
    c1 = prog.bodies[c1e[2]]
    r = strip(c1.return_expr())
    if not (isinstance(r, tuple) and r[0] == "call" and r[1] == "map" and len(r[3]) == 2 and "option::Option" in r[2]):
        return "the filter closure does not return try_as_not_nan(item).map(..)"
    tn, c2e = strip(r[3][0]), strip(r[3][1])
    item = ("param", c1.arg_count)

    def fld(e, k):
        e = strip(e)
        return isinstance(e, tuple) and e[0] == "field" and str(e[2]) == k and strip(e[1])[:2] == item
    if not (isinstance(tn, tuple) and tn[0] == "call" and tn[1] == "try_as_not_nan" and fld(tn[3][0], "1")):
        return "the filter is not try_as_not_nan of the item's element"
    if not (isinstance(c2e, tuple) and c2e[:2] == ("agg", "closure") and c2e[2] in prog.bodies):
        return "the Some payload is not built by a closure of this routine"
    c2 = prog.bodies[c2e[2]]
    r2 = strip(c2.return_expr())
    if not (isinstance(r2, tuple) and r2[0] == "agg" and len(r2[3]) == 2):
        return "the Some payload is not an (index, value) pair"
    _b, i0 = up(prog, c2, r2[3][0])
    if not (fld(i0, "0") and strip(r2[3][1])[:2] == ("param", c2.arg_count)):
        return "the Some payload is `%s`, not (index of the item, its not-NaN value)" % fmt(r2)[:80]
    return True


def rule_r15(ctx, prog, rule="R15"):
    n = 0
    if hasattr(prog, "inlined_view"):
        prog = prog.inlined_view()       # a trait method whose body was moved into a private free function is read in place
    for name, spec in TRAVERSALS.items():
        root = prog.method("MaybeNanExt", name)
        n += 1
        # -- the traversal call in the root: over the whole receiver, closure of this routine
        trav = [(bb, t) for bb, t in root.calls() if callee_name(t) == spec["trav"]]
        ok = False
        clo_key = None
        detail = "no `%s` traversal found" % spec["trav"]
        for bb, t in trav:
            args = root.call_arg_exprs(bb)
            rb, re_, chain, bad = producer_chain(prog, root, args[0])
            whole = strip(re_) == ("param", 1, "self") and all(c in ("indexed_iter", "iter", "into_iter", "view") for c in chain)
            if spec["indexed"]:
                whole = whole and "indexed_iter" in chain
            clo = [strip(a) for a in args if isinstance(strip(a), tuple) and strip(a)[0] == "agg" and strip(a)[1] == "closure"]
            if whole and clo:
                ok = True
                clo_key = clo[0][2]
                detail = "%s over %s with the filtering closure" % (spec["trav"], "→".join(reversed(chain)) + "(self)" if chain else "self")
            else:
                detail = "the traversal is over `%s` via %s: not every element of the receiver is visited exactly once" % (fmt(re_), chain)
        if not ok and not trav and name == "visit_skipnan":
            # delegation: visiting = fold_skipnan with a unit accumulator, the closure handing the not-NaN item to f exactly once
            for bb, t in root.calls():
                if callee_name(t) != "fold_skipnan":
                    continue
                args = root.call_arg_exprs(bb)
                if len(args) != 3 or strip(args[0]) != ("param", 1, "self"):
                    continue
                clo = strip(args[2])
                if not (isinstance(clo, tuple) and clo[0] == "agg" and clo[1] == "closure" and clo[2] in prog.bodies):
                    continue
                c2 = prog.bodies[clo[2]]
                uc = [(cbb, ct) for cbb, ct in c2.calls() if callee_name(ct) in USER_CALL]
                if len(uc) != 1 or len(list(c2.calls())) != 1:
                    continue
                cbb, ct = uc[0]
                a2 = c2.call_arg_exprs(cbb)
                fb, fe = up(prog, c2, a2[0])
                tup = strip(a2[1])
                item_ok = isinstance(tup, tuple) and tup[0] == "agg" and len(tup[3]) == 1 and strip(tup[3][0])[:2] == ("param", c2.arg_count)
                f_ok = fb is root and strip(fe)[:2] == ("param", 2)
                uncond = not any(c2.term(x)["k"] == "switch" for x in c2.live_blocks())
                if item_ok and f_ok and uncond:
                    ok = True
                    detail = "delegates to fold_skipnan(self, (), |(), x| f(x)): the verified NaN-skipping fold hands every non-missing element to f once"
        if not ok and spec["indexed"] and trav:
            # adaptor form: self.indexed_iter().filter_map(|(idx, e)| e.try_as_not_nan().map(|nn| (idx, nn))).fold(init, f) – by the
            # contracts of filter_map and fold, f is called once per item for which the closure returns Some, with that payload, in
            # traversal order; the closure must return Some((index of the item, its not-NaN value)) exactly when the item is not NaN
            ff = _filter_map_form(prog, root, trav[0][0])
            if ff is True:
                ctx.ob(rule, "%s/traversal" % name, True, root.where(), "fold over indexed_iter(self) filtered by try_as_not_nan (filter_map form)")
                for sub, txt in (("filter", "filter_map keeps exactly the items whose try_as_not_nan is Some"),
                                 ("called-exactly-on-some", "the user function is the fold function of the filtered traversal: once per kept item"),
                                 ("arguments", "called with (accumulator, (index of the item, the not-NaN value of that item))"),
                                 ("acc-passthrough", "a dropped item does not reach the fold: the accumulator passes through")):
                    ctx.ob(rule, "%s/%s" % (name, sub), True, root.where(), txt)
                continue
            if isinstance(ff, str):
                detail = ff
        ctx.ob(rule, "%s/traversal" % name, ok, root.where(), detail, what="skip-NaN traversal does not cover the receiver")
        if not clo_key:
            continue
        c = prog.bodies[clo_key]
        # item expression
        last = c.arg_count
        item_param = ("param", last, c.local_name(last))

        def is_item(e):
            e = strip(e)
            if spec["indexed"]:
                return isinstance(e, tuple) and e[0] == "field" and e[2] == "1" and strip(e[1])[:2] == ("param", last)
            return isinstance(e, tuple) and e[:2] == ("param", last)

        # the filter: switch on discr(try_as_not_nan(item))
        sw = None
        for bb in c.live_blocks():
            t = c.term(bb)
            if t["k"] == "switch":
                de = strip(c.switch_discr_expr(bb))
                if isinstance(de, tuple) and de[0] == "discr":
                    inner = strip(de[1])
                    if isinstance(inner, tuple) and inner[0] == "call" and inner[1] == "try_as_not_nan" and is_item(inner[3][0]):
                        sw = (bb, t, inner)
        ctx.ob(rule, "%s/filter" % name, sw is not None, c.where(),
               "branches on try_as_not_nan(item)" if sw else "the closure does not branch on try_as_not_nan of the traversal item",
               what="missing NaN filter")
        if not sw:
            continue
        bb, t, tan = sw
        some_t = [tgt for v, tgt in t["arms"] if v == 1]
        none_t = [tgt for v, tgt in t["arms"] if v == 0] or [t["otherwise"]]
        some_t = some_t[0] if some_t else t["otherwise"]
        none_t = none_t[0]
        # user calls
        ucalls = [(cbb, ct) for cbb, ct in c.calls() if callee_name(ct) in USER_CALL]
        on_some = [(cbb, ct) for cbb, ct in ucalls if branch_dominates(c, bb, some_t, cbb)]
        ok1 = len(ucalls) == 1 and len(on_some) == 1
        ctx.ob(rule, "%s/called-exactly-on-some" % name, ok1, c.where(),
               "the user function is called once, on the Some branch" if ok1 else
               "the user function is called %d time(s), %d of them guarded by the Some branch: NaN/None elements reach it or "
               "non-NaN elements are skipped" % (len(ucalls), len(on_some)), what="user closure not confined to non-NaN elements")
        if on_some:
            cbb, ct = on_some[0]
            args = c.call_arg_exprs(cbb)
            tup = strip(args[1])
            fields = tup[3] if isinstance(tup, tuple) and tup[0] == "agg" else ()
            want_notnan = ("field", ("downcast", tan, "Some"), "0")

            def is_notnan(e):
                e = strip(e)
                return isinstance(e, tuple) and e[0] == "field" and e[2] == "0" and strip(e[1])[0] == "downcast" and strip(strip(e[1])[1]) == tan
            okv = False
            if spec["indexed"]:
                if len(fields) == 2:
                    inner = strip(fields[1])
                    if isinstance(inner, tuple) and inner[0] == "agg" and len(inner[3]) == 2:
                        idx = strip(inner[3][0])
                        okv = is_notnan(inner[3][1]) and isinstance(idx, tuple) and idx[0] == "field" and idx[2] == "0" and strip(idx[1])[:2] == ("param", last)
            else:
                okv = bool(fields) and is_notnan(fields[-1])
            if spec["acc"] and fields:
                a0 = strip(fields[0])
                okv = okv and isinstance(a0, tuple) and a0[:2] == ("param", 2)
            ctx.ob(rule, "%s/arguments" % name, okv, c.where(cbb, "term"),
                   "called with (accumulator, [index of the item,] the not-NaN value of that item)" if okv else
                   "the user function receives `%s`" % fmt(tup), what="wrong value handed to the user closure")
        if spec["acc"]:
            # None branch: accumulator unchanged
            from .rules_guard import Routine
            r = Routine.__new__(Routine)
            r.prog, r.body = prog, c
            fds = r.first_ret_defs(none_t, bb)
            okn = bool(fds)
            for d in fds:
                if d in (None, "loop"):
                    okn = False
                    continue
                e = strip(c.def_expr(0, d))
                if isinstance(e, tuple) and e[0] == "call" and e[1] == "clone" and e[3]:
                    e = strip(e[3][0])
                if not (isinstance(e, tuple) and e[:2] == ("param", 2)):
                    okn = False
            ctx.ob(rule, "%s/acc-passthrough" % name, okn, c.where(),
                   "a NaN item returns the accumulator unchanged" if okn else "the NaN branch does not return the accumulator unchanged",
                   what="NaN item changes the accumulator")
    return n


def option_defs(c, l, depth=0):
    """(def site, expression) of every definition that can flow into local l through plain copies/moves"""
    out = []
    for d in c.defs_of(l):
        if d[0] == "entry" or isinstance(d[1], tuple):
            continue
        if d[1] != "term":
            s = c.blocks[d[0]]["stmts"][d[1]]
            rv = s["rv"]
            if rv["k"] == "use" and rv["a"]["k"] in ("move", "copy") and not rv["a"]["pl"]["p"] and depth < 4:
                out.extend(option_defs(c, rv["a"]["pl"]["l"], depth + 1))
                continue
        out.append((d, strip(c.def_expr(l, d))))
    return out


def rule_lane_forms(ctx, prog, rule="R15"):
    """map_axis_skipnan_mut = map_axis_mut(axis, mapping ∘ remove_nan_mut);
    quantile_axis_skipnan_mut: per lane strip, empty ⇒ from_not_nan_opt(None), else plain quantile with the caller's q/strategy"""
    prog = prog.inlined_view()      # private helpers that do not exist on the reference tree are read in place
    m = prog.method("MaybeNanExt", "map_axis_skipnan_mut")
    ok = False
    detail = "no map_axis_mut(self, axis, closure) found"
    for bb, t in m.calls():
        if callee_name(t) == "map_axis_mut":
            args = m.call_arg_exprs(bb)
            clo = strip(args[2])
            if strip(args[0]) == ("param", 1, "self") and strip(args[1])[:2] == ("param", 2) and clo[0] == "agg":
                c = prog.bodies[clo[2]]
                r = strip(c.return_expr())
                # mapping(remove_nan_mut(lane))
                if isinstance(r, tuple) and r[0] == "call" and r[1] in USER_CALL:
                    tup = strip(r[3][1])
                    arg = strip(tup[3][0]) if tup[0] == "agg" and tup[3] else None
                    if isinstance(arg, tuple) and arg[0] == "call" and arg[1] == "remove_nan_mut" and strip(arg[3][0])[:2] == ("param", 2):
                        ok = True
                        detail = "every lane is stripped with remove_nan_mut and handed to the user's mapping"
                    else:
                        detail = "the mapping receives `%s`, not remove_nan_mut(lane)" % fmt(arg)
    ctx.ob(rule, "map_axis_skipnan_mut/strip-then-map", ok, m.where(), detail, what="lane map does not strip NaNs")

    q = prog.method("QuantileExt", "quantile_axis_skipnan_mut")
    ok = False
    detail = "no map_axis_mut(self, axis, closure) found"
    for bb, t in q.calls():
        if callee_name(t) != "map_axis_mut":
            continue
        args = q.call_arg_exprs(bb)
        clo = strip(args[2])
        if not (strip(args[0]) == ("param", 1, "self") and strip(args[1])[:2] == ("param", 2) and clo[0] == "agg"):
            detail = "map_axis_mut is not applied to (self, axis)"
            continue
        c = prog.bodies[clo[2]]
        stripped = None
        for cbb, ct in c.calls():
            if callee_name(ct) == "remove_nan_mut" and strip(c.call_arg_exprs(cbb)[0])[:2] == ("param", 2):
                stripped = c.call_expr(cbb)
        if stripped is None:
            detail = "the lane is not stripped with remove_nan_mut"
            continue
        # emptiness branch
        sw = None
        for sbb in c.live_blocks():
            st = c.term(sbb)
            if st["k"] == "switch":
                de = strip(c.switch_discr_expr(sbb))
                neg = False
                while isinstance(de, tuple) and de[0] == "unop" and de[1] == "Not":
                    neg = not neg
                    de = strip(de[2])
                f0 = [tgt for v, tgt in st["arms"] if v == 0]
                if isinstance(de, tuple) and de[0] == "call" and de[1] == "is_empty" and strip(de[3][0]) == stripped and f0:
                    sw = (sbb, st, f0[0], st["otherwise"]) if not neg else (sbb, st, st["otherwise"], f0[0])
                elif isinstance(de, tuple) and de[0] == "binop" and de[1] in ("Eq", "Ne") and strip(de[3]) == ("const", "usize", 0) and f0 and \
                        isinstance(strip(de[2]), tuple) and strip(de[2])[0] == "call" and strip(de[2])[1] == "len" and strip(strip(de[2])[3][0]) == stripped:
                    flip = neg != (de[1] == "Ne")
                    sw = (sbb, st, f0[0], st["otherwise"]) if not flip else (sbb, st, st["otherwise"], f0[0])
                elif isinstance(de, tuple) and de[0] == "call" and de[1] == "len" and strip(de[3][0]) == stripped and f0 and st.get("discr_ty") != "bool":
                    # `match stripped.len() { 0 => None, _ => Some(..) }`
                    sw = (sbb, st, st["otherwise"], f0[0])
        if sw is None:
            # `bool::then` form:  from_not_nan_opt((!stripped.is_empty()).then(|| stripped.quantile_axis_mut(Axis(0), q, i).unwrap().into_scalar()))
            r = strip(c.return_expr())
            okt = False
            if isinstance(r, tuple) and r[0] == "call" and r[1] == "from_not_nan_opt" and r[3]:
                x = strip(r[3][0])
                if isinstance(x, tuple) and x[0] == "call" and x[1] == "then" and len(x[3]) == 2:
                    cond = strip(x[3][0])
                    neg = False
                    while isinstance(cond, tuple) and cond[0] == "unop" and cond[1] == "Not":
                        neg = not neg
                        cond = strip(cond[2])
                    cond_ok = neg and isinstance(cond, tuple) and cond[0] == "call" and cond[1] == "is_empty" and strip(cond[3][0]) == stripped
                    clo2 = strip(x[3][1])
                    if cond_ok and isinstance(clo2, tuple) and clo2[0] == "agg" and clo2[1] == "closure" and clo2[2] in prog.bodies:
                        c2 = prog.bodies[clo2[2]]
                        v = strip(c2.return_expr())
                        for _ in range(4):
                            if isinstance(v, tuple) and v[0] == "call" and v[1] in ("into_scalar", "unwrap", "expect") and v[3]:
                                v = strip(v[3][0])
                        if isinstance(v, tuple) and v[0] == "call" and v[1] in ("quantile_axis_mut", "quantile_mut"):
                            a2 = v[3]
                            rb, re_ = up(prog, c2, a2[0])
                            qarg, iarg = (a2[2], a2[3]) if v[1] == "quantile_axis_mut" else (a2[1], a2[2])
                            ub, qe = up(prog, c2, qarg)
                            ub2, ie = up(prog, c2, iarg)
                            recv_ok = rb is c and strip(re_) == stripped
                            qok = ub is q and strip(qe)[:2] == ("param", 3)
                            iok = ub2 is q and strip(ie)[:2] == ("param", 4)
                            okt = recv_ok and qok and iok
                            detail = ("stripped lane → (!is_empty()).then(plain quantile with the caller's q and strategy) → from_not_nan_opt" if okt else
                                      "then-form: receiver=stripped lane:%s q=caller's:%s strategy=caller's:%s" % (recv_ok, qok, iok))
            if okt:
                ok = True
                break
            if not detail.startswith("then-form"):
                detail = "no is_empty() branch on the stripped lane"
            continue
        sbb, st, f, tr = sw          # f: successor taken for a non-empty stripped lane, tr: for an empty one
        # quantile call on the non-empty branch with the caller's q and strategy
        qc = [(cbb, ct) for cbb, ct in c.calls() if callee_name(ct) in ("quantile_axis_mut", "quantile_mut")]
        good = False
        for cbb, ct in qc:
            a = c.call_arg_exprs(cbb)
            on_nonempty = branch_dominates(c, sbb, f, cbb)
            recv = strip(a[0]) == stripped
            if callee_name(ct) == "quantile_axis_mut":
                qarg, iarg = a[2], a[3]
            else:
                qarg, iarg = a[1], a[2]
            ub, qe = up(prog, c, qarg)
            ub2, ie = up(prog, c, iarg)
            qok = ub is q and qe[:2] == ("param", 3)
            iok = ub2 is q and ie[:2] == ("param", 4)
            good = on_nonempty and recv and qok and iok
            detail = ("stripped lane → plain quantile with the caller's q and strategy; " if good else
                      "quantile call: non-empty branch=%s receiver=stripped lane:%s q=caller's:%s strategy=caller's:%s; "
                      % (on_nonempty, recv, qok, iok))
        # result conversion: every value the lane closure returns is from_not_nan_opt(opt); the Option is None exactly on the
        # empty side and Some(plain quantile) on the other (one conversion fed by a phi, or one conversion per branch)
        conv_sites = []
        ex_ = c.exits()
        for d0 in (c.reaching_defs(0, ex_[0], "term") if ex_ else []):
            e0 = strip(c.def_expr(0, d0))
            if isinstance(e0, tuple) and e0[0] == "call" and e0[1] == "from_not_nan_opt" and d0[0] != "entry" and d0[1] == "term":
                conv_sites.append(d0[0])
            else:
                conv_sites.append(None)
        conv = bool(conv_sites) and all(x is not None for x in conv_sites)
        none_on_empty = False
        all_plain = conv
        n_some = 0
        for cbb in (conv_sites if conv else []):
            argl = c.term(cbb)["args"][0]
            opts = []
            if argl["k"] in ("move", "copy"):
                opts = option_defs(c, argl["pl"]["l"])
            elif argl["k"] == "const":
                opts = [((cbb, "term"), strip(c.call_arg_exprs(cbb)[0]))]
            if not opts:
                opts = [((cbb, "term"), strip(c.call_arg_exprs(cbb)[0]))]
            for d, e in opts:
                where_bb = d[0] if len(opts) > 1 or d[0] != cbb else cbb
                if isinstance(e, tuple) and e[0] == "agg" and e[2] == "None":
                    if branch_dominates(c, sbb, tr, where_bb) or branch_dominates(c, sbb, tr, cbb):
                        none_on_empty = True
                    else:
                        all_plain = False
                        detail += "the missing value is also produced for a non-empty stripped lane; "
                    continue
                if isinstance(e, tuple) and e[0] == "agg" and e[2] == "Some":
                    n_some += 1
                    v = strip(e[3][0])
                    for _ in range(4):
                        if isinstance(v, tuple) and v[0] == "call" and v[1] in ("into_scalar", "unwrap", "expect") and v[3]:
                            v = strip(v[3][0])
                    if not (isinstance(v, tuple) and v[0] == "call" and v[1] in ("quantile_axis_mut", "quantile_mut")):
                        all_plain = False
                        detail += "a lane result is computed as `%s`, not by the plain quantile routine; " % fmt(v)[:80]
                    if not (branch_dominates(c, sbb, f, where_bb) or branch_dominates(c, sbb, f, cbb)):
                        all_plain = False
                        detail += "a quantile is produced on the empty side; "
                else:
                    all_plain = False
        all_plain = all_plain and n_some == 1
        ok = good and conv and none_on_empty and all_plain
        detail += "empty stripped lane → from_not_nan_opt(None)" if (conv and none_on_empty) else "empty-lane result is not from_not_nan_opt(None)"
    ctx.ob(rule, "quantile_axis_skipnan_mut/strip-then-quantile", ok, q.where(), detail, what="skip-NaN quantile is not the plain quantile of the stripped lane")

    # value forms return the missing value when nothing is left; index forms: EmptyInput iff fold None (R6 rows)
    for name in ("min_skipnan", "max_skipnan"):
        b = prog.method("QuantileExt", name)
        r = strip(b.return_expr())
        ok = isinstance(r, tuple) and r[0] == "call" and r[1] == "from_not_nan_ref_opt"
        inner = strip(r[3][0]) if ok else None
        ok = ok and isinstance(inner, tuple) and inner[0] == "call" and inner[1] == "fold_skipnan" and strip(inner[3][0]) == ("param", 1, "self")
        seed_ok = False
        if ok:
            seed = strip(inner[3][1])
            # None, or first().and_then(try_as_not_nan): an element of the array itself
            if isinstance(seed, tuple) and seed[0] == "agg" and seed[2] == "None":
                seed_ok = True
            if isinstance(seed, tuple) and seed[0] == "call" and seed[1] in ("and_then", "map"):
                f0 = strip(seed[3][0])
                clo = strip(seed[3][1])
                if isinstance(f0, tuple) and f0[0] == "call" and f0[1] in ("first", "last") and strip(f0[3][0]) == ("param", 1, "self") \
                        and clo[0] == "agg" and clo[1] == "closure":
                    cr = strip(prog.bodies[clo[2]].return_expr())
                    seed_ok = isinstance(cr, tuple) and cr[0] == "call" and cr[1] == "try_as_not_nan" and strip(cr[3][0])[:2] == ("param", 2)
        ctx.ob(rule, "%s/result" % name, ok and seed_ok, b.where(),
               "from_not_nan_ref_opt(fold_skipnan(self, seed ∈ {None, first non-NaN-checked element}, …))" if ok and seed_ok else
               "result is `%s`" % fmt(r)[:200], what="value form does not return the fold of the non-NaN elements")


# ------------------------------------------------------------------------------------------- R23 ORDER

ORDER_UNSPECIFIED = {
    # ndarray traversals whose visiting order follows memory layout
    ("fold", "ndarray"), ("for_each", "ndarray"), ("map_inplace", "ndarray"), ("mapv_inplace", "ndarray"), ("par_for_each", "ndarray"),
    ("visit", "ndarray"), ("fold_while", "ndarray"),
}
LOCAL_ARBITRARY = {"fold_skipnan", "visit_skipnan"}     # documented: "Elements are visited in arbitrary order"
DOCUMENTED_ARBITRARY_ROOTS = {"fold_skipnan", "visit_skipnan"}


def rule_r23(ctx, prog, roots, rule="R23"):
    """a caller-supplied callback may be driven by an order-unspecified traversal only in the routines documented as
    visiting in arbitrary order; everywhere else the order in which it sees the elements must be the logical one"""
    n = 0
    for root in roots:
        group = [root] + prog.closures_of(root)
        for b in group:
            for bb, t in b.calls():
                if callee_name(t) not in USER_CALL:
                    continue
                f = b.call_arg_exprs(bb)[0]
                pb, pe = up(prog, b, f)
                pe = strip(pe)
                if not (isinstance(pe, tuple) and pe[0] == "param" and pb is root):
                    continue
                fty = root.local_ty(pe[1])
                if not (len(fty) <= 3 or fty.startswith("&mut ") and len(fty) <= 8):
                    continue   # only generic callback parameters (type parameter F, M, …)
                n += 1
                # climb the closure chain: which traversal consumes each enclosing closure?
                cur = b
                verdict = "logical"
                via = []
                while cur.is_closure:
                    site = prog.closure_site(cur.key)
                    if site is None:
                        break
                    parent, pbb, psi, ups = site
                    consumer = None
                    me = ("agg", "closure", cur.key)
                    for cbb, ct in parent.calls():
                        for a in parent.call_arg_exprs(cbb):
                            sa = strip(a)
                            if isinstance(sa, tuple) and sa[:3] == me:
                                consumer = ct
                    if consumer is not None:
                        nm = callee_name(consumer)
                        kr = consumer["callee"].get("krate")
                        path = consumer["callee"].get("path") or ""
                        via.append(nm)
                        unspecified = ((nm, kr) in ORDER_UNSPECIFIED and not (consumer["callee"].get("trait") or "").endswith("Iterator")) \
                            or (nm in LOCAL_ARBITRARY and path.startswith("maybe_nan::"))
                        if unspecified:
                            verdict = "unspecified"
                    cur = parent
                ok = verdict == "logical" or root.name in DOCUMENTED_ARBITRARY_ROOTS
                if not ok and root.key not in prog.exported and not root.is_closure:
                    # a private helper: its "caller" is this crate.  If every call site hands it a closure written here that only computes
                    # a value from its arguments (captures nothing it could change, calls no further callback, appends to nothing),
                    # the visiting order cannot be observed
                    sites = prog.callers().get(root.key, [])
                    pure_all = bool(sites)
                    for (cb_, cbb_) in sites:
                        ca = cb_.call_arg_exprs(cbb_)
                        fa = strip(ca[pe[1] - 1]) if pe[1] - 1 < len(ca) else None
                        if not (isinstance(fa, tuple) and fa[:2] == ("agg", "closure") and fa[2] in prog.bodies):
                            pure_all = False
                            break
                        fb = prog.bodies[fa[2]]
                        if fb.stores() and any(True for (sb_, si_, d_) in fb.stores() if d_["p"]):
                            pure_all = False
                        for _b2, t2 in fb.calls():
                            if callee_name(t2) in USER_CALL or callee_name(t2) in ORDER_SENSITIVE_APPEND or \
                                    any((aty or "").startswith("&mut ") for aty in (t2.get("arg_tys") or [])):
                                pure_all = False
                    if pure_all:
                        ctx.ob(rule, "%s/callback-order" % short(root.key), True, b.where(bb, "term"),
                               "private helper driven through %s; all %d call sites pass a value-only closure of this crate: the visiting order is "
                               "not observable" % ("→".join(reversed(via)), len(sites)))
                        continue
                ctx.ob(rule, "%s/callback-order" % short(root.key), ok, b.where(bb, "term"),
                       ("the callback is driven through %s: %s" % ("→".join(reversed(via)) or "a direct call",
                        "logical order" if verdict == "logical" else "arbitrary order, as documented for this routine")) if ok else
                       "the caller's callback is driven through %s, whose visiting order follows the memory layout, in a routine that does "
                       "not document arbitrary order: a non-commutative callback gives layout-dependent results" % "→".join(reversed(via)),
                       what="callback sees elements in layout-dependent order")
    return n


ORDER_SENSITIVE_APPEND = {"push", "push_back", "push_front", "extend", "extend_from_slice", "insert", "append", "push_str", "write", "send"}


def _position_counter_leak(b):
    """closure body b: is there a value X (accumulator component or captured variable) that is replaced by X + c on every
    path and whose old value also flows into something else that is returned or stored?  → description of X, else None"""
    from .facts import walk, fmt
    exits = b.exits()
    if not exits:
        return None
    pd = b.postdominators() if hasattr(b, "postdominators") else None
    cands = []
    for bb in b.live_blocks():
        for si, s_ in enumerate(b.blocks[bb]["stmts"]):
            if s_["k"] != "assign":
                continue
            rv = s_["rv"]
            if rv["k"] == "binop" and rv["op"] in ("Add", "AddWithOverflow"):
                a_, c_ = strip(b.operand_expr(rv["a"], bb, si)), strip(b.operand_expr(rv["b"], bb, si))
                for x, k in ((a_, c_), (c_, a_)):
                    if isinstance(k, tuple) and k[0] == "const" and isinstance(k[2], int) and k[2] >= 1 and isinstance(x, tuple):
                        root = x
                        while isinstance(root, tuple) and root[0] in ("field", "deref", "downcast"):
                            root = strip(root[1])
                        if isinstance(root, tuple) and root[0] in ("param", "upvar") and (root[0] == "upvar" or root[1] >= 2):
                            # unconditional: the block is on every path to the return
                            uncond = isinstance(pd, dict) and (bb == 0 or bb in pd.get(0, set()))
                            cands.append((x, bb, uncond))
    if not cands:
        return None
    outs = [strip(b.def_expr(0, d)) for d in b.reaching_defs(0, exits[0], "term")]
    for (sbb, si, d) in b.stores():
        outs.append(strip(b.rvalue_expr(b.blocks[sbb]["stmts"][si]["rv"], sbb, si)))
    for x, bb, uncond in cands:
        if not uncond:
            continue

        seen_phi = set()

        def occurrences_outside_add(e, depth=0):
            e = strip(e)
            if not isinstance(e, tuple) or depth > 40:
                return 0
            if e == x:
                return 1
            if e[0] == "phi":
                if (e[1], e[3]) in seen_phi:
                    return 0
                seen_phi.add((e[1], e[3]))
                n_ = 0
                for d_ in e[3]:
                    try:
                        n_ += occurrences_outside_add(b.def_expr(e[1], d_), depth + 1)
                    except Exception:
                        pass
                return n_
            if e[0] == "binop" and e[1] in ("Add", "AddWithOverflow") and (strip(e[2]) == x or strip(e[3]) == x):
                return 0
            n = 0
            for y in e[1:]:
                if isinstance(y, tuple):
                    if y and isinstance(y[0], str):
                        n += occurrences_outside_add(y, depth + 1)
                    else:
                        for z in y:
                            if isinstance(z, tuple):
                                n += occurrences_outside_add(z, depth + 1)
            return n
        if any(occurrences_outside_add(o) for o in outs):
            return fmt(x)
    return None


def rule_r23_collect(ctx, prog, roots, rule="R23"):
    """results must not be *collected in visiting order* by a traversal whose order follows the memory layout: inside a closure
    driven by ndarray's `for_each`/`fold`/`Zip::for_each`… no captured collection may be appended to (the position an
    element ends up at would depend on the layout of the input)"""
    n = 0
    for root in roots:
        for b in prog.closures_of(root):
            # is some enclosing closure consumed by an order-unspecified traversal?
            cur = b
            via = None
            while cur.is_closure:
                site = prog.closure_site(cur.key)
                if site is None:
                    break
                parent = site[0]
                me = ("agg", "closure", cur.key)
                for cbb, ct in parent.calls():
                    if any(strip(a)[:3] == me for a in parent.call_arg_exprs(cbb) if isinstance(strip(a), tuple)):
                        nm = callee_name(ct)
                        if (nm, ct["callee"].get("krate")) in ORDER_UNSPECIFIED and not (ct["callee"].get("trait") or "").endswith("Iterator"):
                            via = via or nm
                        else:
                            # handed to a private helper that passes it on to such a traversal (`zip_fold(a, b, init, f)`)
                            hb = prog.local_callee_body(ct)
                            if hb is not None and not hb.is_closure and hb.key not in prog.exported:
                                pidx = [i_ + 1 for i_, a in enumerate(parent.call_arg_exprs(cbb)) if isinstance(strip(a), tuple) and strip(a)[:3] == me]
                                for hbb, ht in hb.calls():
                                    if (callee_name(ht), ht["callee"].get("krate")) in ORDER_UNSPECIFIED and not (ht["callee"].get("trait") or "").endswith("Iterator"):
                                        if any(isinstance(strip(x), tuple) and strip(x)[:2] == ("param", pi_) for x in hb.call_arg_exprs(hbb) for pi_ in pidx):
                                            via = via or callee_name(ht)
                cur = parent
            if via is None:
                continue
            n += 1
            bad = []
            for bb, t in b.calls():
                nm = callee_name(t)
                if nm not in ORDER_SENSITIVE_APPEND or not t["arg_tys"] or not t["arg_tys"][0].startswith("&mut "):
                    continue
                pb, pe = up(prog, b, b.call_arg_exprs(bb)[0])
                if pb is not b:                       # the receiver is captured from outside the closure
                    bad.append((nm, b.where(bb, "term")))
            # (b) no position counter: a value incremented by a constant on every visit whose *intermediate* value is kept
            # (stored with the running best, used as an index, …) is the element's position in visiting order
            pos_bad = _position_counter_leak(b)
            if pos_bad:
                bad.append(("position counter `%s`" % pos_bad, b.where()))
            ctx.ob(rule, "%s/no-collection-in-visiting-order" % short(b.key), not bad, b.where(),
                   "the closure driven by ndarray `%s` appends to no captured collection" % via if not bad else
                   "a closure driven by ndarray `%s` (visiting order follows the memory layout) appends to a captured collection (%s): "
                   "where a result ends up depends on the layout of the input" % (via, ", ".join("%s at %s" % x for x in bad)),
                   what="results collected in layout-dependent order")
    return n
