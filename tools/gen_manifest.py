#!/usr/bin/env python3
"""regenerate /verif/MANIFEST.json from nsa/manifest_info.py (claims, levels, not-applicable reasons)"""
import json
import os
import sys

VERIF = os.path.dirname(os.path.dirname(os.path.abspath(__file__)))
sys.path.insert(0, VERIF)
from nsa import manifest_info as MI  # noqa: E402
from nsa import props  # noqa: E402

checks = []
for pid in sorted(MI.CLAIMS):
    c = MI.CLAIMS[pid]
    assert pid in props.PROPS, pid
    checks.append({
        "property_id": pid,
        "quick_cmd": "./check %s --tier quick" % pid,
        "thorough_cmd": "./check %s --tier thorough" % pid,
        "evidence_file": "/verif/evidence/%s.json" % pid,
        "replay_cmd_template": "./check %s --replay {path}" % pid,
        "engine": "nsa",
        "level_claimed": {"category": c["category"], "text": c["text"], "design_ref": c["design_ref"]},
        "level_note": c["note"],
        "technique": c["technique"],
    })
na = [{"property_id": p, "reason": r} for p, r in sorted(MI.NOT_APPLICABLE.items())]
allp = set(l.split('"')[3] for l in open(os.path.join(VERIF, "properties.jsonl")) if l.strip())
assert set(MI.CLAIMS) | set(MI.NOT_APPLICABLE) == allp, (allp - set(MI.CLAIMS) - set(MI.NOT_APPLICABLE))
assert not (set(MI.CLAIMS) & set(MI.NOT_APPLICABLE))
m = {
    "version": 1,
    "setup_cmd": "./setup.sh",
    "hooks": {
        "guard": "ndarray_stats_verif",
        "enable": "none needed: static analysis reads the unmodified crate (no hooks were added to /repo)",
        "baseline_off_cmd": "cd /repo && cargo test --workspace --no-fail-fast --offline --lib --tests",
        "source_commits": [],
        "add_only": True,
    },
    "engines": [
        {"name": "nsfacts", "path": "driver/", "serves_properties": sorted(MI.CLAIMS),
         "kind_free_text": "rustc_private driver (nightly) injected as RUSTC_WORKSPACE_WRAPPER under cargo check: dumps resolved MIR, ADTs, impl headers, unsafe blocks of the type-checked crate as JSON"},
        {"name": "nsa", "path": "nsa/", "serves_properties": sorted(MI.CLAIMS),
         "kind_free_text": "Python rule library over the MIR facts: CFG, dominators, reaching definitions, symbolic value provenance, call graph; repository-specific rules R1..R19"},
    ],
    "checks": checks,
    "not_applicable": na,
    "notes": MI.NOTES,
}
with open(os.path.join(VERIF, "MANIFEST.json"), "w") as fh:
    json.dump(m, fh, indent=1)
print("MANIFEST.json: %d checks, %d not applicable" % (len(checks), len(na)))
