"""Engine E — zone (difference-bound) abstract interpretation over dev-profile MIR (DESIGN.md §2.5, rule R18).

Decides panic freedom of index arithmetic in leaf functions under a documented precondition: every overflow/bounds
`Assert` terminator and every bounds precondition of the callee contracts (ndarray Index/swap: index < len) must be
discharged by the invariant computed for its program point.  Sound (over-approximating), incomplete.  Nothing is executed:
the fixpoint is over abstract states (sets of constraints x − y ≤ c on the function's integer locals, the symbolic
array length N and the constant 0)."""
from .facts import callee_name, ds, fmt, strip

INF = float("inf")
USIZE_MAX = 2 ** 64 - 1
LEN_MAX = 2 ** 63 - 1      # ndarray: every array length ≤ isize::MAX


class DBM:
    """difference-bound matrix over variable names; m[(x,y)] = c means x − y ≤ c.  Variable 'Z' is the constant 0."""

    def __init__(self, vars_):
        self.vars = list(vars_)
        self.m = {}
        self.bottom = False

    def copy(self):
        d = DBM(self.vars)
        d.m = dict(self.m)
        d.bottom = self.bottom
        if getattr(self, "neq", None):
            d.neq = set(self.neq)      # remembered disequalities x − y ≠ k (see selection.refine_terms)
        return d

    def get(self, x, y):
        if x == y:
            return 0
        return self.m.get((x, y), INF)

    def add(self, x, y, c):
        """x − y ≤ c with incremental closure"""
        if self.bottom:
            return
        if x == y:
            if c < 0:
                self.bottom = True
            return
        if self.get(x, y) <= c:
            return
        if self.get(y, x) + c < 0:
            self.bottom = True
            return
        self.m[(x, y)] = c
        vs = self.vars
        for a in vs:
            ax = self.get(a, x)
            if ax == INF:
                continue
            for b in vs:
                yb = self.get(y, b)
                if yb == INF or a == b:
                    continue
                v = ax + c + yb
                if v < self.get(a, b):
                    self.m[(a, b)] = v
        for a in vs:
            if self.get(a, a) < 0:
                self.bottom = True

    def forget(self, x):
        for k in [k for k in self.m if k[0] == x or k[1] == x]:
            del self.m[k]

    def assign_var_plus(self, x, y, c):
        """x := y + c"""
        if x == y:
            # shift: x' = x + c  → every bound on x moves by c
            new = {}
            for (a, b), v in self.m.items():
                if a == x and b != x:
                    new[(a, b)] = v + c
                elif b == x and a != x:
                    new[(a, b)] = v - c
                else:
                    new[(a, b)] = v
            self.m = new
            return
        self.forget(x)
        self.add(x, y, c)
        self.add(y, x, -c)

    def assign_const(self, x, c):
        self.forget(x)
        self.add(x, "Z", c)
        self.add("Z", x, -c)

    def havoc_unsigned(self, x, hi=USIZE_MAX):
        self.forget(x)
        self.add("Z", x, 0)
        self.add(x, "Z", hi)

    def join(self, o):
        if self.bottom:
            return o.copy()
        if o.bottom:
            return self.copy()
        d = DBM(self.vars)
        for k, v in self.m.items():
            w = o.m.get(k, INF)
            mv = max(v, w)
            if mv != INF:
                d.m[k] = mv
        return d

    def widen(self, o):
        """self ∇ o : keep only the bounds that did not grow"""
        if self.bottom:
            return o.copy()
        if o.bottom:
            return self.copy()
        d = DBM(self.vars)
        for k, v in self.m.items():
            w = o.m.get(k, INF)
            if w <= v:
                d.m[k] = v
        return d

    def leq(self, o):
        if self.bottom:
            return True
        if o.bottom:
            return False
        for k, v in o.m.items():
            if self.m.get(k, INF) > v:
                return False
        return True

    def entails(self, x, y, c):
        return self.bottom or self.get(x, y) <= c

    def bounds(self, x):
        lo = -self.get("Z", x)
        hi = self.get(x, "Z")
        return lo, hi

    def describe(self, names):
        out = []
        for x in names:
            lo, hi = self.bounds(x)
            rel = []
            for y in names + ["N"]:
                if y != x and self.get(x, y) != INF and y != "Z":
                    rel.append("%s−%s≤%s" % (x, y, int(self.get(x, y))))
            out.append("%s∈[%s,%s]%s" % (x, int(lo) if lo != -INF else "-inf", int(hi) if hi != INF else "inf",
                                        (" " + ",".join(rel)) if rel else ""))
        return "; ".join(out)


class ZoneAnalysis:
    def __init__(self, body, precondition, len_of_receiver=lambda e: None):
        """precondition(dbm, analysis) installs the assumed facts on the entry state;
        len_of_receiver(expr) → DBM variable naming the length of an indexable receiver (default: 'N' for param 1)"""
        self.b = body
        self.pre = precondition
        self.int_locals = [l for l in range(len(body.locals))
                           if any(f.startswith("uint:") for f in body.local_flags(l)) and "ref" not in body.local_flags(l)]
        # tuples of integers (cursor pairs returned by a helper, …): one pseudo-variable per integer component
        self.tuple_fields = {}
        for l in range(len(body.locals)):
            ty = body.local_ty(l)
            if ty.startswith("(") and ty.endswith(")") and "<" not in ty and "(" not in ty[1:]:
                comps = [c_.strip() for c_ in ty[1:-1].split(",") if c_.strip()]
                idx = [i for i, c_ in enumerate(comps) if c_ in ("usize",)]
                if idx and len(comps) >= 2 and "bool" not in comps:      # (usize, bool) are checked-arithmetic results
                    self.tuple_fields[l] = idx
            else:
                # a crate-local struct of plain integers (e.g. a pair of cursors)
                adt = getattr(body.prog, "adts", {}).get(ty)
                if adt and adt.get("kind") == "Struct" and len(adt.get("variants", [])) == 1:
                    ftys = [f.get("ty") for f in adt["variants"][0]["fields"]]
                    if ftys and all(t_ == "usize" for t_ in ftys):
                        self.tuple_fields[l] = list(range(len(ftys)))
                        self.struct_locals = getattr(self, "struct_locals", {})
                        self.struct_locals[l] = ty
        self.vars = ["Z", "N"] + ["_%d" % l for l in self.int_locals] + ["_%d.%d" % (l, i) for l, fs in self.tuple_fields.items() for i in fs]
        self.pending = {}     # tuple local -> (op, var-or-const operands)
        self.bools = {}       # bool local -> (op, a, b) comparison (per definition site, single-assignment temps)
        self.obligations = [] # (key, bb, ok, detail)
        self.states = {}
        self.len_of_receiver = len_of_receiver
        self.assumptions = []

    def name(self, l):
        return "_%d" % l

    def pretty(self, v):
        if v in ("Z", "N"):
            return {"Z": "0", "N": "len"}[v]
        l = int(v[1:])
        return self.b.local_name(l) or v

    # operands → ('var', name) | ('const', c) | None
    def opnd(self, op):
        if op["k"] == "const":
            c = op["c"]
            if "int" in c:
                return ("const", c["int"])
            return None
        pl = op["pl"]
        if pl["p"]:
            return None
        if pl["l"] in self.int_locals:
            return ("var", self.name(pl["l"]))
        return None

    def assign_tuple(self, st, l, rv):
        fs = self.tuple_fields[l]
        if rv["k"] == "agg" and (not rv.get("adt") or rv.get("adt") == getattr(self, "struct_locals", {}).get(l)):
            for i in fs:
                x = "_%d.%d" % (l, i)
                o = self.opnd(rv["fields"][i]) if i < len(rv["fields"]) else None
                if o and o[0] == "var":
                    st.assign_var_plus(x, o[1], 0)
                elif o and o[0] == "const":
                    st.assign_const(x, o[1])
                else:
                    st.havoc_unsigned(x)
            return
        if rv["k"] == "use" and rv["a"]["k"] in ("move", "copy") and not rv["a"]["pl"]["p"] and rv["a"]["pl"]["l"] in self.tuple_fields:
            src = rv["a"]["pl"]["l"]
            for i in fs:
                if i in self.tuple_fields[src]:
                    st.assign_var_plus("_%d.%d" % (l, i), "_%d.%d" % (src, i), 0)
                else:
                    st.havoc_unsigned("_%d.%d" % (l, i))
            return
        for i in fs:
            st.havoc_unsigned("_%d.%d" % (l, i))

    def is_self_recv(self, e):
        e = ds(e)
        return isinstance(e, tuple) and e[:2] == ("param", 1)

    def transfer_block(self, bb, st, record):
        b = self.b
        st = st.copy()
        blk = b.blocks[bb]
        for si, s in enumerate(blk["stmts"]):
            if s["k"] != "assign" or s["dst"]["p"]:
                continue
            l = s["dst"]["l"]
            rv = s["rv"]
            if l in self.int_locals:
                x = self.name(l)
                done = False
                if rv["k"] == "use":
                    a = rv["a"]
                    if a["k"] == "const" and "int" in a["c"]:
                        st.assign_const(x, a["c"]["int"])
                        done = True
                    elif a["k"] in ("copy", "move"):
                        pl = a["pl"]
                        if not pl["p"] and pl["l"] in self.int_locals:
                            st.assign_var_plus(x, self.name(pl["l"]), 0)
                            done = True
                        elif len(pl["p"]) == 1 and isinstance(pl["p"][0], dict) and pl["l"] in self.tuple_fields and \
                                pl["p"][0].get("field") in self.tuple_fields[pl["l"]]:
                            st.assign_var_plus(x, "_%d.%d" % (pl["l"], pl["p"][0]["field"]), 0)
                            done = True
                        elif len(pl["p"]) == 1 and isinstance(pl["p"][0], dict) and pl["p"][0].get("field") == 0 and pl["l"] in self.pending:
                            op, aa, bbv = self.pending[pl["l"]]
                            if aa and bbv and aa[0] == "var" and bbv[0] == "const":
                                c = bbv[1] if op == "Add" else -bbv[1]
                                if op in ("Add", "Sub"):
                                    st.assign_var_plus(x, aa[1], c)
                                    done = True
                elif rv["k"] == "binop" and rv["op"] in ("Add", "Sub"):
                    aa, bbv = self.opnd(rv["a"]), self.opnd(rv["b"])
                    if aa and bbv and aa[0] == "var" and bbv[0] == "const":
                        st.assign_var_plus(x, aa[1], bbv[1] if rv["op"] == "Add" else -bbv[1])
                        done = True
                if not done:
                    st.havoc_unsigned(x)
            elif rv["k"] == "binop" and rv["op"].endswith("WithOverflow"):
                self.pending[l] = (rv["op"][:-len("WithOverflow")], self.opnd(rv["a"]), self.opnd(rv["b"]))
            elif rv["k"] == "binop" and rv["op"] in ("Lt", "Le", "Gt", "Ge", "Eq", "Ne"):
                self.bools[l] = (rv["op"], self.opnd(rv["a"]), self.opnd(rv["b"]))
            elif l in self.tuple_fields:
                self.assign_tuple(st, l, rv)
        t = blk["term"]
        k = t["k"]
        outs = {}
        if k == "assert":
            cond = t["cond"]
            msg = t["msg"]
            ok = None
            detail = ""
            if msg.startswith("Overflow:") and cond["k"] in ("move", "copy"):
                pl = cond["pl"]
                pend = self.pending.get(pl["l"])
                if pend:
                    op, aa, bbv = pend
                    if aa and bbv and aa[0] == "var" and bbv[0] == "const":
                        if op == "Sub":
                            ok = st.entails("Z", aa[1], -bbv[1])           # a ≥ c
                            detail = "%s − %d needs %s ≥ %d" % (self.pretty(aa[1]), bbv[1], self.pretty(aa[1]), bbv[1])
                        elif op == "Add":
                            ok = st.entails(aa[1], "Z", USIZE_MAX - bbv[1])
                            detail = "%s + %d needs %s ≤ usize::MAX − %d" % (self.pretty(aa[1]), bbv[1], self.pretty(aa[1]), bbv[1])
                    elif aa and bbv and aa[0] == "var" and bbv[0] == "var" and op == "Sub":
                        ok = st.entails(bbv[1], aa[1], 0)
                        detail = "%s − %s needs %s ≥ %s" % (self.pretty(aa[1]), self.pretty(bbv[1]), self.pretty(aa[1]), self.pretty(bbv[1]))
            if record:
                names = []
                if ok is not None:
                    names = [v for v in (aa[1] if aa and aa[0] == "var" else None, bbv[1] if bbv and bbv[0] == "var" else None) if v]
                self.obligations.append(("assert:%s" % msg, bb, bool(ok), detail or "unmodelled assert `%s`" % msg,
                                         st.describe(names) if names else ""))
            # continue assuming the assert held
            if ok is not None and aa and bbv and aa[0] == "var" and bbv[0] == "const":
                if op == "Sub":
                    st.add("Z", aa[1], -bbv[1])
                elif op == "Add":
                    st.add(aa[1], "Z", USIZE_MAX - bbv[1])
            outs[t["target"]] = st
        elif k == "call":
            nm = callee_name(t)
            args = b.call_arg_exprs(bb)
            c = t["callee"]
            # contracts
            if nm in ("index", "index_mut") and (c.get("trait") or "").endswith(("ops::Index", "ops::IndexMut")) and len(t["args"]) == 2:
                lv = "N" if self.is_self_recv(args[0]) else self.len_of_receiver(args[0])
                iv = self.opnd(t["args"][1])
                if lv and iv and iv[0] == "var":
                    ok = st.entails(iv[1], lv, -1)
                    if record:
                        self.obligations.append(("index", bb, ok, "indexing needs %s < %s" % (self.pretty(iv[1]), self.pretty(lv)),
                                                 st.describe([iv[1]])))
                    st.add(iv[1], lv, -1)
                elif lv and iv and iv[0] == "const":
                    ok = st.entails("Z", lv, -(iv[1] + 1))
                    if record:
                        self.obligations.append(("index", bb, ok, "indexing needs %d < %s" % (iv[1], self.pretty(lv)), st.describe([lv])))
                    st.add("Z", lv, -(iv[1] + 1))
                elif record and lv:
                    self.obligations.append(("index", bb, False, "index expression not modelled: `%s`" % fmt(ds(args[1]))[:60], ""))
            elif nm == "swap" and c.get("krate") == "ndarray" and len(t["args"]) == 3 and self.is_self_recv(args[0]):
                for ai in (1, 2):
                    iv = self.opnd(t["args"][ai])
                    if iv and iv[0] == "var":
                        ok = st.entails(iv[1], "N", -1)
                        if record:
                            self.obligations.append(("swap-arg%d" % ai, bb, ok, "swap needs %s < len" % self.pretty(iv[1]), st.describe([iv[1]])))
                        st.add(iv[1], "N", -1)
                    elif iv and iv[0] == "const":
                        ok = st.entails("Z", "N", -(iv[1] + 1))
                        if record:
                            self.obligations.append(("swap-arg%d" % ai, bb, ok, "swap needs %d < len" % iv[1], st.describe(["N"])))
                        st.add("Z", "N", -(iv[1] + 1))
                    elif record:
                        self.obligations.append(("swap-arg%d" % ai, bb, False, "swap index not modelled", ""))
            # results
            d = t["dst"]
            if not d["p"] and d["l"] in self.tuple_fields:
                for i in self.tuple_fields[d["l"]]:
                    st.havoc_unsigned("_%d.%d" % (d["l"], i))
            if not d["p"] and d["l"] in self.int_locals:
                x = self.name(d["l"])
                if nm in ("len", "len_of") and args and self.is_self_recv(args[0]):
                    st.assign_var_plus(x, "N", 0)
                else:
                    st.havoc_unsigned(x)
            elif not d["p"] and "bool" in b.local_flags(d["l"]):
                if nm == "is_empty" and args and self.is_self_recv(args[0]):
                    self.bools[d["l"]] = ("Eq", ("var", "N"), ("const", 0))
                else:
                    self.bools.pop(d["l"], None)
            if t.get("target") is not None:
                outs[t["target"]] = st
        elif k == "switch":
            dsc = t["discr"]
            cmp_ = None
            if dsc["k"] in ("move", "copy") and not dsc["pl"]["p"]:
                cmp_ = self.bools.get(dsc["pl"]["l"])
            succs = b.succ(bb)
            if cmp_ and cmp_[1] and cmp_[2] and t.get("discr_ty") == "bool":
                f = [tgt for v, tgt in t["arms"] if v == 0]
                ftgt = f[0] if f else None
                ttgt = t["otherwise"]
                for tgt, truth in ((ttgt, True), (ftgt, False)):
                    if tgt is None or tgt not in succs:
                        continue
                    s2 = st.copy()
                    self.refine(s2, cmp_, truth)
                    outs[tgt] = s2 if tgt not in outs else outs[tgt].join(s2)
            elif dsc["k"] in ("move", "copy") and not dsc["pl"]["p"] and dsc["pl"]["l"] in self.int_locals:
                x = self.name(dsc["pl"]["l"])
                vals = [v for v, _ in t["arms"]]
                for v, tgt in t["arms"]:
                    if tgt in succs:
                        s2 = st.copy()
                        s2.add(x, "Z", v)
                        s2.add("Z", x, -v)
                        outs[tgt] = s2 if tgt not in outs else outs[tgt].join(s2)
                if t["otherwise"] in succs:
                    s2 = st.copy()
                    for v in sorted(vals):
                        self.refine(s2, ("Ne", ("var", x), ("const", v)), True)
                    outs[t["otherwise"]] = s2 if t["otherwise"] not in outs else outs[t["otherwise"]].join(s2)
            else:
                for s in succs:
                    outs[s] = st if s not in outs else outs[s].join(st)
        else:
            for s in b.succ(bb):
                outs[s] = st
        return outs

    def refine(self, st, cmp_, truth):
        op, a, b_ = cmp_
        neg = {"Lt": "Ge", "Le": "Gt", "Gt": "Le", "Ge": "Lt", "Eq": "Ne", "Ne": "Eq"}
        if not truth:
            op = neg[op]

        def term(x):
            return (x[1], 0) if x[0] == "var" else ("Z", x[1])
        (xa, ca), (xb, cb) = term(a), term(b_)
        # (xa + ca) op (xb + cb)
        if op == "Lt":
            st.add(xa, xb, cb - ca - 1)
        elif op == "Le":
            st.add(xa, xb, cb - ca)
        elif op == "Gt":
            st.add(xb, xa, ca - cb - 1)
        elif op == "Ge":
            st.add(xb, xa, ca - cb)
        elif op == "Eq":
            st.add(xa, xb, cb - ca)
            st.add(xb, xa, ca - cb)
        elif op == "Ne":
            # disequality tightening at interval ends
            d_hi = st.get(xa, xb)      # xa − xb ≤ d_hi
            d_lo = -st.get(xb, xa)     # xa − xb ≥ d_lo
            target = cb - ca           # xa − xb ≠ target
            if d_lo == target:
                st.add(xb, xa, -(target + 1))
            if d_hi == target:
                st.add(xa, xb, target - 1)

    def run(self, widen_after=3, max_iter=60):
        b = self.b
        entry = DBM(self.vars)
        for l in self.int_locals:
            if 1 <= l <= b.arg_count:
                entry.add("Z", self.name(l), 0)
                entry.add(self.name(l), "Z", USIZE_MAX)
        entry.add("Z", "N", 0)
        entry.add("N", "Z", LEN_MAX)
        self.pre(entry, self)
        states = {0: entry}
        visits = {}
        work = [0]
        heads = {h for h in b.live_blocks() for p in b.preds(h) if b.dominates(h, p)}
        while work:
            bb = work.pop(0)
            outs = self.transfer_block(bb, states[bb], record=False)
            for tgt, s2 in outs.items():
                if s2.bottom:
                    continue
                if tgt not in states:
                    states[tgt] = s2
                    work.append(tgt)
                    continue
                old = states[tgt]
                if s2.leq(old):
                    continue
                j = old.join(s2)
                if tgt in heads:
                    visits[tgt] = visits.get(tgt, 0) + 1
                    if visits[tgt] > widen_after:
                        j = old.widen(j)
                    if visits[tgt] > max_iter:
                        continue
                states[tgt] = j
                if tgt not in work:
                    work.append(tgt)
        # one narrowing sweep (descending iteration), keeping soundness: new = old ⊓ F(old) is implemented as recomputing
        # block inputs from predecessors' outputs once
        for _ in range(2):
            new_in = {0: entry}
            for bb in sorted(states):
                outs = self.transfer_block(bb, states[bb], record=False)
                for tgt, s2 in outs.items():
                    if s2.bottom:
                        continue
                    new_in[tgt] = s2 if tgt not in new_in else new_in[tgt].join(s2)
            for bb, s in new_in.items():
                if bb in states and s.leq(states[bb]):
                    states[bb] = s
        self.states = states
        # record obligations with the final invariants
        self.obligations = []
        for bb in sorted(states):
            self.transfer_block(bb, states[bb], record=True)
        return self.obligations
