"""RESULT-INTEGRITY-NOTE added to every claim text.
Claims per property (source of MANIFEST.json; regenerate with tools/gen_manifest.py)."""

NOTE_BASE = ("Trusted: rustc's type checking/name resolution/MIR construction; documented ndarray 0.16 semantics "
             "(swap, Index bounds checks, Zip/iter pair by logical index, disjoint lanes, from_shape_ptr); std; noisy_float; "
             "rand::gen_range; lawful Ord/PartialOrd of element types. The check never executes the crate.")

CLAIMS = {
    "C01": dict(
        category="other",
        text="Partial, and stated as such: decides C01 in exact arithmetic. (a) The values the strategies are applied to are the order "
             "statistics: the bulk selection is proved for all lanes and pivot sequences (R25 representative-element abstract execution "
             "on partition_mut's proved contract R22; see C02), so the result cannot depend on the pivots drawn. (b) The interpolation "
             "layer, decided on MIR: index arithmetic (N−1)q with floor/ceil/fract; the five strategies' needs_lower/needs_higher and "
             "interpolate formulas (CAS on extracted terms); the bulk routine applies the strategy to the values looked up at lower/higher "
             "index of the j-th q and stores it in the j-th slot; result shape = input shape with the axis resized to the number of requested "
             "quantiles; single = slice 0 of bulk; sorted+deduped index vector; axis passed through; error rows. (c) Range analysis of the "
             "strategy formulas by linear bounds over the element type's range (R26): results inside [lower, higher], exact coincidence for "
             "equal neighbours, representability of every intermediate for unsigned/signed/float families - the last fails for signed and float "
             "lanes (defect D8, a known finding with failing inputs). Not decided: floating-point "
             "rounding of q·(N−1) and of the formulas, the 'within one unit' clause for integer element types, representability."
             " Result integrity (R30): what each routine hands back is the value its verified core computed – on every success path, with nothing applied afterwards, and reached for every argument in the property's range (guard direction R31, termination of the cursor loops R32 where applicable); see DESIGN §7.x for the mutation sweeps that motivated these clauses.",
        design_ref="DESIGN.md §4 C01",
        note=NOTE_BASE + " sympy for the strategy formulas.",
        technique="static analysis: symbolic term extraction of the interpolation formulas + delegation/shape/pairing rules + summary-based abstract execution of the bulk selection, over MIR",
    ),
    "C20": dict(
        category="proof",
        text="Static proof of a sufficient condition for layout independence on the resolved MIR of every body: no layout-observing "
             "ndarray/std API outside the one audited helper (R1, all call sites), axis parameters passed through unchanged (R8), "
             "zip operands are undisturbed logical producers (R9), each extension trait implemented once generically in the storage "
             "type (IMPL); caller callbacks are driven in logical order and no closure driven by a layout-ordered ndarray traversal appends to "
             "a captured collection (R23). Decides the structural condition, not the numerical roundoff clause."
             " Result integrity (R30): what each routine hands back is the value its verified core computed – on every success path, with nothing applied afterwards, and reached for every argument in the property's range (guard direction R31, termination of the cursor loops R32 where applicable); see DESIGN §7.x for the mutation sweeps that motivated these clauses.",
        design_ref="DESIGN.md §4 C20",
        note=NOTE_BASE,
        technique="static analysis: who-may-call + dataflow rules over type-checked MIR (custom rustc_private driver)",
    ),
    "C16": dict(
        category="other",
        text="Static must-pass-through analysis of the CFG (release and dev MIR, constant-false debug_assert branches pruned): every "
             "entry→return path of partition_mut, get_from_sorted_mut, get_many_from_sorted_mut, Edges::index, Bins::index and Grid::index "
             "passes an operation that diverges unless position < length; a violating path is reported block by block. Decides the "
             "rejection direction for every input, pivot sequence and build profile; the converse (in-range calls never panic) is decided for "
             "the leaf functions by the zone analysis (R18) and for both recursive selection routines by R18s: under the in-range "
             "precondition every panic edge met by the abstract executions of R24/R25 (bounds checks, slicing, split_at_mut, overflow and "
             "debug assertions, empty gen_range, callee preconditions) is refuted by the reached state."
             " Result integrity (R30): what each routine hands back is the value its verified core computed – on every success path, with nothing applied afterwards, and reached for every argument in the property's range (guard direction R31, termination of the cursor loops R32 where applicable); see DESIGN §7.x for the mutation sweeps that motivated these clauses.",
        design_ref="DESIGN.md §4 C16",
        note=NOTE_BASE,
        technique="static analysis: must-pass-through (path) rule over release/dev MIR CFGs with delegation summaries",
    ),
    "C17": dict(
        category="other",
        text="Static decision-table conformance: the ordered error exits (guard class, subjects, variant, payload provenance) of all 49 "
             "fallible routines are extracted from MIR (helpers inlined, `?`/From applied symbolically) and compared with the table "
             "transcribed from the property; panics preceding documented error exits are reported. Guards are pure functions of shapes "
             "and q, so a matched row holds for all inputs. One known finding (cov on 0xk input, pinned by a test)."
             " Result integrity (R30): what each routine hands back is the value its verified core computed – on every success path, with nothing applied afterwards, and reached for every argument in the property's range (guard direction R31, termination of the cursor loops R32 where applicable); see DESIGN §7.x for the mutation sweeps that motivated these clauses.",
        design_ref="DESIGN.md §4 C17",
        note=NOTE_BASE,
        technique="static analysis: guard-sequence extraction from MIR + decision table",
    ),
    "C04": dict(
        category="other",
        text="Static soundness conditions of the unsafe re-typing behind NaN removal for all 14 element types: stride/pointer/length "
             "provenance of every from_shape_ptr (R2), size/align asserts dominating the pointer cast, repr(transparent) + private field of "
             "NotNone, audited inventory of every unsafe block/fn tied to its justifying guard (R3), NotNone only built from values known "
             "Some (R11), no randomness / no layout API in maybe_nan (R14, R1), and the compaction's postcondition proved by candidate "
             "segment invariants (R21): every return is the prefix view[..x] with no missing value before x and only missing values from x "
             "on – with the swap-only effect discipline this is 'exactly the non-missing elements, length = their count'; 'missing' is the "
             "element type's own test in all 14 impls (R29: float is_nan(self), Option is_none(self))."
             " Result integrity (R30): what each routine hands back is the value its verified core computed – on every success path, with nothing applied afterwards, and reached for every argument in the property's range (guard direction R31, termination of the cursor loops R32 where applicable); see DESIGN §7.x for the mutation sweeps that motivated these clauses.",
        design_ref="DESIGN.md §4 C04",
        note=NOTE_BASE,
        technique="static analysis: provenance + dominance rules over MIR, unsafe inventory from HIR",
    ),
    "C08": dict(
        category="other",
        text="Partial, and stated as such: decides only the exact-arithmetic FORMULA of covariance and Pearson correlation in matrix form – "
             "centred rows D = X − mean over the observation axis, Gram product D·Dᵀ of one D (hence symmetric by construction), elementwise "
             "division by (n − ddof), correlation = cov(ddof₀)/(σσᵀ) with the same ddof₀ – and the constant observation axis. The roundoff "
             "bounds, the [-1,1] range, the unit diagonal up to roundoff and the affine invariances are numerical statements about runtime "
             "values that static analysis cannot decide; they are not claimed."
             " Result integrity (R30): what each routine hands back is the value its verified core computed – on every success path, with nothing applied afterwards, and reached for every argument in the property's range (guard direction R31, termination of the cursor loops R32 where applicable); see DESIGN §7.x for the mutation sweeps that motivated these clauses.",
        design_ref="DESIGN.md §4 C08",
        note=NOTE_BASE,
        technique="static analysis: structural formula conformance of whole-array expressions on MIR",
    ),
    "C02": dict(
        category="other",
        text="Both selection routines are proved statically for every input and every pivot sequence (Ord assumed a lawful total order; "
             "every recursive call is on a provably strictly shorter sub-view, so they terminate). SINGLE (R24): all return paths of get_from_sorted_mut are executed abstractly with partition_mut's "
             "contract (itself proved: R22/R18) and the induction hypothesis on the sub-view, relations between value symbols closed "
             "under transitivity; postcondition a[i] = r, everything before i ≤ r, everything after ≥ r. BULK (R25): the recursive "
             "divide-and-conquer is proved by representative-element abstract execution over (zone, array facts, universally quantified "
             "range facts on the index list, slice handles): for an arbitrary requested position t, values[t] = w with array[j] = w, left ≤ w, "
             "right ≥ w on every path and case; the induction hypothesis' precondition (strictly increasing, in bounds after rebasing by "
             "exactly the sub-view start, aligned slices) is proved at both recursive calls; the wrapper pairs indexes[t] with values[t] in "
             "increasing index order (R12 sorted+deduped, R5 bounds). Only swaps move data (R4), so these are the elements a full sort "
             "places there; the pivot index is an unconstrained value in both proofs."
             " Result integrity (R30): what each routine hands back is the value its verified core computed – on every success path, with nothing applied afterwards, and reached for every argument in the property's range (guard direction R31, termination of the cursor loops R32 where applicable); see DESIGN §7.x for the mutation sweeps that motivated these clauses.",
        design_ref="DESIGN.md §4 C02",
        note=NOTE_BASE + " Ord is assumed a lawful total order.",
        technique="static analysis: summary-based abstract execution of all MIR paths (zone + array-segment predicates + symbolic order relations; representative-element quantified facts for the bulk form)",
    ),
    "C19": dict(
        category="other",
        text="Partial, clause by clause, in exact arithmetic (float rounding and the 'one unit in the last place' allowance are not modelled). "
             "Decided directly on the extracted formulas: lower_index/higher_index are floor/ceil of one quantity x = q(len-1) that is "
             "non-decreasing in q, 0 at q=0 and len-1 at q=1, the fraction is fract of the same x (R27: term comparison, monotonicity typing, "
             "CAS at the endpoints); every strategy is non-decreasing in the fraction at fixed neighbours (R27); for every strategy and "
             "element-type family lower <= result <= higher and the result is exactly lower when both neighbours are equal (R26 linear-bound "
             "range analysis) - hence Lower <= {Nearest, Midpoint, Linear} <= Higher, coincidence at integral x, min at q=0 and max at q=1; the "
             "strategy table and the lookup (R19/R13); no memory-order API in the quantile / selection code (R1: result j belongs to request q_j, lane elements are addressed by logical position); the neighbours are order statistics, a function of the lane's multiset only (R25/R22/R4: "
             "bulk selection proved) - hence permutation invariance, and with bracketing and the monotone positions monotonicity in q also "
             "across segments. Relabelling invariance of Lower/Higher/Nearest is witnessed at the type level (thorough tier: they and the "
             "selection compile for an element type offering only Ord + Clone). Overflow of intermediates breaks the bracketing for signed and "
             "float lanes: defect D8, known finding."
             " Result integrity (R30): what each routine hands back is the value its verified core computed – on every success path, with nothing applied afterwards, and reached for every argument in the property's range (guard direction R31, termination of the cursor loops R32 where applicable); see DESIGN §7.x for the mutation sweeps that motivated these clauses.",
        design_ref="DESIGN.md §4 C19",
        note=NOTE_BASE + " sympy at the endpoints; Ord assumed a lawful total order.",
        technique="static analysis: monotonicity typing and linear-bound range analysis of extracted formula terms + summary-based abstract execution of the selection + type-level witness",
    ),
    "C03": dict(
        category="proof",
        text="Static proof of an effect discipline sufficient for 'in-place routines only permute their lanes': over the call graph "
             "reachable from the mutating entry points, every use of a caller-owned mutable array handle is ArrayBase::swap, a re-view, a "
             "traversal whose closure is checked, a checked family member, the audited raw helper (R2) or the user's callback; no store "
             "through an element reference of caller data. Conservative: a clone-and-assign rewrite would be flagged."
             " Result integrity (R30): what each routine hands back is the value its verified core computed – on every success path, with nothing applied afterwards, and reached for every argument in the property's range (guard direction R31, termination of the cursor loops R32 where applicable); see DESIGN §7.x for the mutation sweeps that motivated these clauses.",
        design_ref="DESIGN.md §4 C03",
        note=NOTE_BASE,
        technique="static analysis: effect/ownership discipline over the MIR call graph",
    ),
    "C05": dict(
        category="other",
        text="Static check of the structural clauses of min/max/argmin/argmax: emptiness decided first and mapped to EmptyInput; every "
             "element comparison is partial_cmp→UndefinedOrder via `?`; the scan is a fresh complete traversal of the receiver (its iterator is "
             "never advanced before the scan, so a lone NaN is compared too); "
             "replacement predicate new<best for min forms / new>best for max forms, arg and value forms agreeing; arg forms return the "
             "indexed_iter index updated together with the value. Does not decide that the scan result is extremal for all value patterns."
             " Result integrity (R30): what each routine hands back is the value its verified core computed – on every success path, with nothing applied afterwards, and reached for every argument in the property's range (guard direction R31, termination of the cursor loops R32 where applicable); see DESIGN §7.x for the mutation sweeps that motivated these clauses.",
        design_ref="DESIGN.md §4 C05",
        note=NOTE_BASE,
        technique="static analysis: idiom + sibling-agreement rules over MIR (guard table, comparator direction table)",
    ),
    "C14": dict(
        category="other",
        text="Static check of the filter structure of all NaN-skipping operations: traversal covers the receiver, user closure invoked "
             "exactly once on the Some branch of try_as_not_nan(item) with that value/index, accumulator passed through otherwise; lane "
             "forms are strip∘plain with the caller's axis/q/strategy; comparator direction and EmptyInput rule of the skip-NaN extrema; "
             "stripped lanes sound for every stride (R2/R3); NotNone<T> is a transparent wrapper – each of its 40 trait methods is T's own method "
             "of the same name, none left to a trait default (R28); 'missing' is the type's own is_nan/is_none (R29). Does not decide value "
             "equality with the filtered plain operation beyond these."
             " Result integrity (R30): what each routine hands back is the value its verified core computed – on every success path, with nothing applied afterwards, and reached for every argument in the property's range (guard direction R31, termination of the cursor loops R32 where applicable); see DESIGN §7.x for the mutation sweeps that motivated these clauses.",
        design_ref="DESIGN.md §4 C14",
        note=NOTE_BASE,
        technique="static analysis: branch-discipline (dominance) rules over MIR closures",
    ),
    "C11": dict(
        category="proof",
        text="Static proof of the histogram's accounting structure (relative to C13's lookup and ndarray indexing): counts written only by "
             "new/add_observation (field ownership over all MIR bodies), exactly one `+= 1` on the found branch with the index returned by "
             "self.grid.index_of(observation), nothing written or called on the reject path, counts = zeros(grid.shape()) of the stored "
             "grid, matrix form inserts each row of axis 0 once and ignores rejects, coordinate j paired with projection j after an arity "
             "assert; the lookup itself is the left-closed/right-open decision tree for every edge-set size incl. 0 and 1 (R20) over edges that are strictly increasing by construction (R11, the lookup's premise), so a miss is a "
             "quiet None. Order independence follows from commuting increments."
             " Result integrity (R30): what each routine hands back is the value its verified core computed – on every success path, with nothing applied afterwards, and reached for every argument in the property's range (guard direction R31, termination of the cursor loops R32 where applicable); see DESIGN §7.x for the mutation sweeps that motivated these clauses.",
        design_ref="DESIGN.md §4 C11",
        note=NOTE_BASE,
        technique="static analysis: field-ownership, exactly-once dataflow and dominance rules over MIR",
    ),
    "C13": dict(
        category="other",
        text="Static check that (a) every Edges value is sorted+deduplicated by construction and immutable afterwards (constructor "
             "dominance, private fields, no &mut self methods, single construction sites), (b) all accessors of Edges/Bins/Grid go through "
             "the one binary-search primitive, Bins::len arms are 0→0, n→n−1, and (c) the decision tree of Edges::indices_of extracted "
             "from MIR equals the left-closed/right-open table on every (variant, index, n≤8) case; (d) no raw-buffer or memory-order API in the constructors/accessors (R1 scoped to bins.rs and grid.rs: the logical elements of an array argument are what is stored). Trusts std's binary_search contract."
             " Result integrity (R30): what each routine hands back is the value its verified core computed – on every success path, with nothing applied afterwards, and reached for every argument in the property's range (guard direction R31, termination of the cursor loops R32 where applicable); see DESIGN §7.x for the mutation sweeps that motivated these clauses.",
        design_ref="DESIGN.md §4 C13",
        note=NOTE_BASE,
        technique="static analysis: constructor-dominance/ownership rules + decision-tree extraction compared with a specification table",
    ),
    "C09": dict(
        category="other",
        text="Static check that every deviation measure pairs its operands by logical index (undisturbed Zip producers, no layout API), "
             "applies the documented guards/delegations, and accumulates exactly the definitional kernel: the closure's arithmetic is "
             "extracted from MIR as a symbolic term and compared by a CAS with Σ(a−b)², Σ|a−b|, max|a−b| (running max from 0), +1 on a==b; "
             "symmetry and zero-on-equal are proved on the extracted terms; derived measures are the documented functions of the "
             "primitives; in PSNR the peak enters only as maxv.to_f64() (no squaring in the element type). Exact for integers barring overflow; "
             "float roundoff is not decided."
             " Result integrity (R30): what each routine hands back is the value its verified core computed – on every success path, with nothing applied afterwards, and reached for every argument in the property's range (guard direction R31, termination of the cursor loops R32 where applicable); see DESIGN §7.x for the mutation sweeps that motivated these clauses.",
        design_ref="DESIGN.md §4 C09",
        note=NOTE_BASE + " sympy is trusted for polynomial/elementary identities.",
        technique="static analysis: symbolic kernel-term extraction from MIR + CAS identity check; pairing/guard rules",
    ),
    "C10": dict(
        category="other",
        text="Static check of entropy/cross-entropy/KL: explicit `== 0 ⇒ 0` branch on the multiplicand dominating every ln (R10), kernel "
             "terms extracted from MIR equal x·ln x, p·ln q, p·ln(q/p) (CAS), every success value is the negated plain sum (no clamping), operands paired by logical "
             "index in the documented order, guards per the decision table; identities KL(p,p)=0 and H(p,q)=H(p)+KL(p,q) proved termwise "
             "on the extracted terms. Inequalities (KL ≥ 0, H ≤ ln n) and roundoff are not decided."
             " Result integrity (R30): what each routine hands back is the value its verified core computed – on every success path, with nothing applied afterwards, and reached for every argument in the property's range (guard direction R31, termination of the cursor loops R32 where applicable); see DESIGN §7.x for the mutation sweeps that motivated these clauses.",
        design_ref="DESIGN.md §4 C10",
        note=NOTE_BASE + " sympy is trusted for elementary identities (positive symbols).",
        technique="static analysis: dominance rule + symbolic kernel-term extraction from MIR + CAS identity check",
    ),
    "C06": dict(
        category="other",
        text="Static check that means and weighted sums are the defined quantities: pairing of data and weights by logical index (R9/R1/R8), "
             "guards (R6), and symbolic extraction of each routine's value from MIR compared by a CAS with the definition in exact arithmetic "
             "(Σx/n with the type's own Div, Σd·w from zero, weighted_sum/Σw, recip(mean(recip)), exp(mean(ln))); per-axis forms are "
             "operation-identical lane kernels with the caller's weights. Decides the exact-arithmetic clause and the skeleton that the "
             "standard summation bound needs; does not decide the float error bound itself or overflow."
             " Result integrity (R30): what each routine hands back is the value its verified core computed – on every success path, with nothing applied afterwards, and reached for every argument in the property's range (guard direction R31, termination of the cursor loops R32 where applicable); see DESIGN §7.x for the mutation sweeps that motivated these clauses.",
        design_ref="DESIGN.md §4 C06",
        note=NOTE_BASE + " sympy is trusted for rational/elementary identities; ndarray's sum/mean are Σ and Σ/len.",
        technique="static analysis: symbolic reduction-skeleton and term extraction from MIR + CAS; kernel-equality between siblings",
    ),
    "C07": dict(
        category="other",
        text="Static check of variance/moment routines: West's weighted-variance loop is extracted from MIR as a recurrence and proved by "
             "CAS induction over abstract sums to equal Σw(x−x̄)²/(Σw−ddof) in exact arithmetic (so ddof reaches the denominator); kurtosis "
             "and skewness formulas; order 0/1 are the exact constants; per-axis variants map the same kernel with the caller's weights "
             "and ddof; std = sqrt∘var; guards and pairing. Forward-error bounds, the sign guarantee and the general-order pipeline's "
             "numerics are not decided."
             " Result integrity (R30): what each routine hands back is the value its verified core computed – on every success path, with nothing applied afterwards, and reached for every argument in the property's range (guard direction R31, termination of the cursor loops R32 where applicable); see DESIGN §7.x for the mutation sweeps that motivated these clauses.",
        design_ref="DESIGN.md §4 C07",
        note=NOTE_BASE + " sympy is trusted for rational identities.",
        technique="static analysis: loop-recurrence extraction from MIR + CAS induction; delegation/constant-arm rules",
    ),
    "C12": dict(
        category="other",
        text="Static check of the strategy-built bins: n_bins() and build() of the shared EquiSpaced builder use the same edge formula "
             "operation for operation (extracted from MIR as functions of their loop counters), build iterates 0..=n_bins(), edge(0)=min, "
             "equal widths (CAS); every builder is constructed under the guard width>0 ∧ min<max; strategies pass a.min()/a.max() in order "
             "and delegate; error rows; every generic division of the constructors has a divisor ≥ 1 by interval evaluation over len(a) ≥ 1 (R33: no integer division by zero where Err(Strategy) is promised). The closing clause (a histogram over the built grid counts all n observations) rests on the accounting structure of Histogram, checked here too (R16/R11 as in C11). With the loop's exit test `edge(n) <= max` and the +1 counter this gives, in exact arithmetic, "
             "last edge > max and ≤ max + width. Necessary conditions of the property; float rounding of the edges and termination for "
             "widths below one ulp are not decided."
             " Result integrity (R30): what each routine hands back is the value its verified core computed – on every success path, with nothing applied afterwards, and reached for every argument in the property's range (guard direction R31, termination of the cursor loops R32 where applicable); see DESIGN §7.x for the mutation sweeps that motivated these clauses.",
        design_ref="DESIGN.md §4 C12",
        note=NOTE_BASE,
        technique="static analysis: sibling-agreement on extracted operation DAGs + constructor-dominance rules",
    ),
    "C18": dict(
        category="other",
        text="Static check that bulk routines are their single-item counterparts by construction: single quantile = bulk with one request + "
             "index_axis_move(axis,0); 1-D wrappers = axis forms at Axis(0); per-axis weighted sum/mean/var/std map operation-identical "
             "kernels with the caller's arguments; central_moment and central_moments share canonical shifted moments, correction term, "
             "prefix ..=k and kernels; the unchecked bulk selection always receives a sorted+deduped vector; j-th output ↔ j-th q with "
             "matching push/lookup predicates (polarity and coverage of the neighbour positions). The entry for index i of bulk selection equals single selection of i because both are proved to be the element of rank i (R25 bulk proof, R24 single proof, also through a private recursive helper)."
             " Result integrity (R30): what each routine hands back is the value its verified core computed – on every success path, with nothing applied afterwards, and reached for every argument in the property's range (guard direction R31, termination of the cursor loops R32 where applicable); see DESIGN §7.x for the mutation sweeps that motivated these clauses.",
        design_ref="DESIGN.md §4 C18",
        note=NOTE_BASE,
        technique="static analysis: delegation table, canonical-form equality of sibling pipelines, typestate of the index vector",
    ),
    "C15": dict(
        category="other",
        text="Static proof of partition_mut's contract on its MIR: (a) no panic for an in-range pivot incl. length 1, by zone abstract "
             "interpretation discharging every overflow assert and Index/swap precondition; (b) the value-level postcondition – a[k] is "
             "the pivot value, everything before k strictly smaller, everything after ≥ – by checking candidate segment invariants "
             "(Houdini) along all loop-free path segments and all return paths, for every array content; (c) only swaps move data, so k "
             "is the rank. Assumes Ord is a lawful total order; 'all 1-D view strides' follows from the code only using the logical API."
             " Result integrity (R30): what each routine hands back is the value its verified core computed – on every success path, with nothing applied afterwards, and reached for every argument in the property's range (guard direction R31, termination of the cursor loops R32 where applicable); see DESIGN §7.x for the mutation sweeps that motivated these clauses.",
        design_ref="DESIGN.md §4 C15",
        note=NOTE_BASE + " Callee contracts: len() ≤ isize::MAX; Index/swap panic iff index ≥ len.",
        technique="static analysis: abstract interpretation (zones) + candidate-invariant checking over array-segment predicates on MIR",
    ),
}


NOT_APPLICABLE = {
}

NOTES = ("Technique family: static analysis only. Every check re-extracts MIR facts from /repo's working tree with a rustc_private "
         "driver and decides repository-specific rules over them; no test of the crate is run, nothing is executed or solved "
         "symbolically. Genuine defects found are listed in known_findings.json (fixed ones with their fix: commit).")
