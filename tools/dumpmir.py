#!/usr/bin/env python3
"""debug helper: print the MIR facts of the bodies whose key contains the given substring"""
import sys, os
sys.path.insert(0, os.path.dirname(os.path.dirname(os.path.abspath(__file__))))
from nsa import facts
from nsa.facts import callee_name


def pl(p):
    s = "_%d" % p["l"]
    for x in p["p"]:
        s += ".*" if x == "deref" else ("." + (str(x.get("field")) if isinstance(x, dict) and "field" in x else str(x)))
    return s


def op(o):
    if o["k"] == "const":
        return "const %s" % (o["c"].get("int", o["c"].get("s", o["c"])))
    return "%s %s" % (o["k"], pl(o["pl"]))


def rv(r):
    k = r["k"]
    if k == "use":
        return op(r["a"])
    if k == "binop":
        return "%s(%s, %s)" % (r["op"], op(r["a"]), op(r["b"]))
    if k == "ref":
        return "&%s%s" % ("mut " if r.get("mut") else "", pl(r["pl"]))
    if k == "agg":
        return "agg %s{%s}" % (r.get("adt"), ", ".join(op(f) for f in r["fields"]))
    if k == "discr":
        return "discr(%s)" % pl(r["pl"])
    d = dict(r)
    for kk in ("pl",):
        if kk in d:
            d[kk] = pl(d[kk])
    for kk in ("a", "b"):
        if kk in d and isinstance(d[kk], dict):
            d[kk] = op(d[kk])
    return str(d)


def main():
    prof = os.environ.get("PROFILE", "dev")
    f = facts.extract(prof)
    prog = facts.Program(f)
    for b in prog.bodies.values() if isinstance(prog.bodies, dict) else prog.bodies:
        if sys.argv[1] not in b.key:
            continue
        print("====", b.key, "args", b.arg_count)
        for i, l in enumerate(b.locals):
            print("  _%d: %s %s %s" % (i, l.get("ty"), l.get("name") or "", ",".join(b.local_flags(i))))
        for bb in sorted(b.live_blocks()):
            blk = b.blocks[bb]
            print(" bb%d:" % bb)
            for s in blk["stmts"]:
                if s["k"] == "assign":
                    print("    %s = %s" % (pl(s["dst"]), rv(s["rv"])))
                else:
                    print("    ", s["k"])
            t = blk["term"]
            if t["k"] == "call":
                print("    %s = CALL %s [%s](%s) -> %s   @%s" % (pl(t["dst"]), callee_name(t), (t["callee"].get("path") or "")[-60:], ", ".join(op(a) for a in t["args"]), t.get("target"), b.where(bb)))
            elif t["k"] == "switch":
                print("    SWITCH %s %s else %s" % (op(t["discr"]), t["arms"], t["otherwise"]))
            elif t["k"] == "assert":
                print("    ASSERT %s -> %s" % (op(t["cond"]), t.get("target")))
            else:
                print("    %s %s" % (t["k"], {k: v for k, v in t.items() if k not in ("k", "span")}))


main()
