#!/bin/sh
# Build the framework offline from files on disk: the rustc_private fact extractor, and the dependency
# metadata (dev + release profiles) of the analysed crate so that each check only re-analyses ndarray-stats.
set -e
cd "$(dirname "$0")"
export CARGO_NET_OFFLINE=true
(cd driver && cargo build --release --offline 2>&1 | tail -2)
python3 - <<'PY'
import sys
sys.path.insert(0, '.')
from nsa.facts import extract
import os
for prof in ('dev', 'rel'):
    f = extract(prof)
    print('warm', prof, len(f['bodies']), 'bodies', f['_meta']['extract_s'], 's')
f = extract('dev', repo=os.path.join(os.getcwd(), 'fixtures'), crate='nsfix', floor=12)
print('warm fixtures', len(f['bodies']), 'bodies')
PY
echo setup ok
