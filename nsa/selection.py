"""Engine F, part 2 — summary-based proof of single selection (rule R24, property C02, single form only).

get_from_sorted_mut has no loop: it partitions, then returns a[i] or recurses into the sub-view that contains position i.
Every entry→return path is executed abstractly on (zone state, element facts, relations between value symbols) using
  * the contract of partition_mut proved by R22:  a[k] = pv, ∀x<k a[x] < pv, ∀x>k a[x] ≥ pv  (fresh symbol pv), k < len;
  * the induction hypothesis for the recursive call on a sub-view [lo,hi) with index idx (sound by induction on the view
    length, the sub-view being strictly shorter):  a[lo+idx] = w, ∀x∈[lo,lo+idx) a[x] ≤ w, ∀x∈(lo+idx,hi) a[x] ≥ w,
    elements outside [lo,hi) untouched, the sub-view permuted within itself (so a segment fact covering the whole sub-view
    survives and also holds for w, which is one of its elements);
  * `a[i].clone()` yields a value symbol equal to that element.
The postcondition  a[i] = r, ∀x<i a[x] ≤ r, ∀x>i a[x] ≥ r  must follow on every return path.  With R4 (the array is a
permutation of the input) r is then exactly the element a full sort places at position i, whatever pivots were drawn:
the pivot index is an unconstrained value on every path.  Assumes Ord is a lawful total order."""
from .facts import callee_name, ds, fmt
from .paths import enumerate_paths
from .zones import DBM, ZoneAnalysis, USIZE_MAX, LEN_MAX


def tadd(t, c):
    return (t[0], t[1] + c)


def refine_terms(d, op, a, c, truth):
    """add the comparison `a op c` (or its negation) between two terms to the zone"""
    if not truth:
        op = {"Lt": "Ge", "Le": "Gt", "Gt": "Le", "Ge": "Lt", "Eq": "Ne", "Ne": "Eq"}[op]
    if op == "Lt":
        d.add(a[0], c[0], c[1] - a[1] - 1)
    elif op == "Le":
        d.add(a[0], c[0], c[1] - a[1])
    elif op == "Gt":
        d.add(c[0], a[0], a[1] - c[1] - 1)
    elif op == "Ge":
        d.add(c[0], a[0], a[1] - c[1])
    elif op == "Eq":
        d.add(a[0], c[0], c[1] - a[1])
        d.add(c[0], a[0], a[1] - c[1])
    elif op == "Ne":
        if d.entails(a[0], c[0], c[1] - a[1] - 1) or d.entails(c[0], a[0], a[1] - c[1] - 1):
            return
        if d.entails(a[0], c[0], c[1] - a[1]):      # a ≤ c ∧ a ≠ c
            d.add(a[0], c[0], c[1] - a[1] - 1)
        elif d.entails(c[0], a[0], a[1] - c[1]):
            d.add(c[0], a[0], a[1] - c[1] - 1)
        else:
            # neither direction known yet: remember  a − c ≠ k  and sharpen a later `≤` / `≥` into `<` / `>`
            if getattr(d, "neq", None) is None:
                d.neq = set()
            d.neq.add((a[0], c[0], c[1] - a[1]))
        return
    # a bound was added: a remembered disequality on the same pair may now make it strict
    for (x, y, k) in list(getattr(d, "neq", None) or ()):
        if d.bottom:
            break
        if d.entails(x, y, k - 1) or d.entails(y, x, -k - 1):
            d.neq.discard((x, y, k))
        elif d.entails(x, y, k):
            d.add(x, y, k - 1)
            d.neq.discard((x, y, k))
        elif d.entails(y, x, -k):
            d.add(y, x, -k - 1)
            d.neq.discard((x, y, k))


def refuted(d, op, a, c, truth):
    """is `a op c` == truth impossible in the zone?"""
    if d.bottom:
        return True
    if not truth:
        op = {"Lt": "Ge", "Le": "Gt", "Gt": "Le", "Ge": "Lt", "Eq": "Ne", "Ne": "Eq"}[op]
    if op == "Ne":
        return d.entails(a[0], c[0], c[1] - a[1]) and d.entails(c[0], a[0], a[1] - c[1])
    d2 = d.copy()
    refine_terms(d2, op, a, c, True)
    return d2.bottom


class VState:
    def __init__(self, d):
        self.d = d
        self.facts = set()     # ('seg', lo, hi, (rel, sym)) | ('pt', pos, (rel, sym))
        self.symrel = set()    # (a, '<'|'<='|'==', b)
        self.elem = {}         # ref local -> position term
        self.val = {}          # value local -> symbol
        self.pending = {}
        self.lin = {}          # local -> ('sub', term a, term b)   (a − b, two variables)
        self.bools = {}
        self.subview = {}      # local -> (lo term, hi term)
        self.refint = {}       # local holding `&int_local` -> term
        self.ordcmp = {}       # Ordering local -> (a term, b term) from Ord::cmp(&a, &b)
        self.discr_of = {}     # discriminant local -> Ordering local
        self.nsym = 0

    def fresh(self, base):
        self.nsym += 1
        return "%s%d" % (base, self.nsym)

    def le(self, a, b):
        return self.d.entails(a[0], b[0], b[1] - a[1])

    def lt(self, a, b):
        return self.d.entails(a[0], b[0], b[1] - a[1] - 1)

    def eq(self, a, b):
        return self.le(a, b) and self.le(b, a)

    # ---- symbol order (reflexive-transitive closure of the recorded relations)
    def _closure(self):
        syms = set()
        for a, r, b in self.symrel:
            syms.add(a)
            syms.add(b)
        le = {(s, s) for s in syms}
        lt = set()
        for a, r, b in self.symrel:
            if r == "==":
                le.add((a, b))
                le.add((b, a))
            elif r == "<=":
                le.add((a, b))
            elif r == "<":
                le.add((a, b))
                lt.add((a, b))
        changed = True
        while changed:
            changed = False
            for (a, b) in list(le):
                for (c, d_) in list(le):
                    if b == c and (a, d_) not in le:
                        le.add((a, d_))
                        changed = True
            for (a, b) in list(lt):
                for (c, d_) in list(le):
                    if b == c and (a, d_) not in lt:
                        lt.add((a, d_))
                        changed = True
                    if d_ == a and (c, b) not in lt:
                        lt.add((c, b))
                        changed = True
        return le, lt

    def sym_le(self, a, b):
        if a == b:
            return True
        le, lt = self._closure()
        return (a, b) in le

    def sym_lt(self, a, b):
        le, lt = self._closure()
        return (a, b) in lt

    def sym_eq(self, a, b):
        return a == b or (self.sym_le(a, b) and self.sym_le(b, a))

    def implies(self, have, want):
        (r1, s1), (r2, s2) = have, want
        if r2 == "LE":
            return (r1 in ("LT", "LE", "EQ") and self.sym_le(s1, s2)) or False
        if r2 == "LT":
            return (r1 == "LT" and self.sym_le(s1, s2)) or (r1 in ("LE", "EQ") and self.sym_lt(s1, s2))
        if r2 == "GE":
            return r1 in ("GT", "GE", "EQ") and self.sym_le(s2, s1)
        if r2 == "GT":
            return (r1 == "GT" and self.sym_le(s2, s1)) or (r1 in ("GE", "EQ") and self.sym_lt(s2, s1))
        if r2 == "EQ":
            return r1 == "EQ" and self.sym_eq(s1, s2)
        return False

    def holds_at(self, pos, pred):
        for f in self.facts:
            if f[0] == "pt" and self.eq(f[1], pos) and self.implies(f[2], pred):
                return True
            if f[0] == "seg" and self.le(f[1], pos) and self.lt(pos, f[2]) and self.implies(f[3], pred):
                return True
        return False

    def covers(self, lo, hi, pred):
        if self.d.bottom or self.le(hi, lo):
            return True
        cover = lo
        used = set()
        for _ in range(16):
            if self.le(hi, cover):
                return True
            progressed = False
            for f in self.facts:
                if f in used:
                    continue
                if f[0] == "seg" and self.implies(f[3], pred) and self.le(f[1], cover):
                    if self.le(hi, f[2]):
                        return True
                    if self.le(cover, f[2]):
                        cover = f[2]
                        used.add(f)
                        progressed = True
                        break
                if f[0] == "pt" and self.implies(f[2], pred) and self.eq(f[1], cover):
                    cover = tadd(f[1], 1)
                    used.add(f)
                    progressed = True
                    break
            if not progressed:
                return False
        return self.le(hi, cover)

    def member_relations(self, w, lo, hi=None):
        """w is the value of an element at position lo (hi None) or of some element of [lo,hi): inherit what holds there"""
        rel_of = {"LT": (w, "<", None), "LE": (w, "<=", None), "EQ": (w, "==", None), "GT": (None, "<", w), "GE": (None, "<=", w)}
        for f in list(self.facts):
            if hi is None:
                ok = (f[0] == "pt" and self.eq(f[1], lo)) or (f[0] == "seg" and self.le(f[1], lo) and self.lt(lo, f[2]))
            else:
                ok = f[0] == "seg" and self.le(f[1], lo) and self.le(hi, f[2])
            if not ok:
                continue
            r, s = f[2] if f[0] == "pt" else f[3]
            a, op, b = rel_of[r]
            self.symrel.add((a if a is not None else s, op, b if b is not None else s))


class SelectionProof:
    def __init__(self, prog, body, partition_key, self_keys):
        self.prog = prog
        self.b = body
        self.partition_key = partition_key
        self.self_keys = self_keys
        self.za = ZoneAnalysis(body, lambda st, z: None)
        self.int_locals = set(self.za.int_locals)
        self.notes = []
        self.panic_obs = []      # (kind, discharged, detail) – requirements for "no panic for an in-range index"
        self.i_param = None

    def need(self, st, kind, ok, detail):
        self.panic_obs.append((kind, bool(ok) or st.d.bottom, detail))

    def name(self, l):
        return "_%d" % l

    def term(self, op):
        if op["k"] == "const":
            c = op["c"]
            return ("Z", c["int"]) if "int" in c else None
        pl = op["pl"]
        if pl["p"] or pl["l"] not in self.int_locals:
            return None
        return (self.name(pl["l"]), 0)

    def run_path(self, pi):
        b = self.b
        d = DBM(self.za.vars)
        for l in self.int_locals:
            if 1 <= l <= b.arg_count:
                d.add("Z", self.name(l), 0)
                d.add(self.name(l), "Z", USIZE_MAX)
        d.add("Z", "N", 0)
        d.add("N", "Z", LEN_MAX)
        if self.i_param is not None:
            d.add(self.name(self.i_param), "N", -1)        # precondition of the converse: the requested position is in range
        st = VState(d)
        blocks = list(pi.blocks)
        ret_sym = None
        for idx, bb in enumerate(blocks):
            nxt = blocks[idx + 1] if idx + 1 < len(blocks) else None
            blk = b.blocks[bb]
            for si, s in enumerate(blk["stmts"]):
                if s["k"] == "assign" and not s["dst"]["p"]:
                    self.assign(st, s["dst"]["l"], s["rv"])
            t = blk["term"]
            if t["k"] == "assert":
                pend = st.pending.get(t["cond"]["pl"]["l"]) if t["cond"]["k"] in ("move", "copy") else None
                if pend:
                    op, a, c = pend
                    if a and c and op == "Sub":
                        self.need(st, "overflow", st.le(c, a), "`%s − %s` needs %s ≥ %s (%s)" % (a, c, a, c, b.where(bb, "term")))
                    elif a and c and op == "Add":
                        tot = (a[0], a[1] + c[1]) if c[0] == "Z" else ((c[0], a[1] + c[1]) if a[0] == "Z" else None)
                        self.need(st, "overflow", tot is not None and st.le(tot, ("Z", USIZE_MAX)), "`%s + %s` must not exceed usize::MAX (%s)" % (a, c, b.where(bb, "term")))
                    else:
                        self.need(st, "overflow", False, "unmodelled overflow check (%s)" % b.where(bb, "term"))
                    if a and c and c[0] == "Z" and op == "Sub":
                        st.d.add("Z", a[0], -(c[1] - a[1]))
                    elif a and c and op == "Sub":
                        st.d.add(c[0], a[0], a[1] - c[1])      # a − c ≥ 0
                else:
                    cl = t["cond"]["pl"]["l"] if t["cond"]["k"] in ("move", "copy") and not t["cond"]["pl"]["p"] else None
                    info = st.bools.get(cl)
                    exp = bool(t.get("expected", True))
                    if info:
                        self.need(st, "assert", refuted(st.d, info[0], info[1], info[2], not exp), "assert `%s %s %s` (%s)" % (info[1], info[0], info[2], b.where(bb, "term")))
                        refine_terms(st.d, info[0], info[1], info[2], exp)
                    else:
                        self.need(st, "assert", False, "unmodelled assert (%s)" % b.where(bb, "term"))
            elif t["k"] == "call":
                r = self.call(st, bb, t)
                if r is False:
                    return None, None, "unmodelled call `%s` touches the array" % callee_name(t)
                if not t["dst"]["p"] and t["dst"]["l"] == 0:
                    ret_sym = st.val.get(0)
            elif t["k"] == "switch" and nxt is not None:
                self.diverging_edges(st, bb, t)
                self.switch(st, t, nxt)
            if st.d.bottom:
                return "infeasible", None, ""
        # the return place may also be filled by moving a local that holds the (tracked) result: `let found = …; found`
        return st, (ret_sym if ret_sym is not None else st.val.get(0)), ""

    def diverging_edges(self, st, bb, t):
        """every successor of this switch from which no return is reachable (a panic) must be excluded by the current state"""
        b = self.b
        dsc = t["discr"]
        dl = dsc["pl"]["l"] if dsc["k"] in ("move", "copy") and not dsc["pl"]["p"] else None
        info = st.bools.get(dl)
        f = [tgt for v, tgt in t["arms"] if v == 0]
        ftgt = f[0] if f else None
        for s_ in b.succ(bb):
            if b.term(s_)["k"] == "unreachable" or b.can_reach_return(s_):
                continue
            ok = False
            if info is not None and t.get("discr_ty") == "bool":
                truth = False if s_ == ftgt else True
                ok = refuted(st.d, info[0], info[1], info[2], truth)
            self.need(st, "diverging-branch", ok, "the branch at %s into a block that cannot return (a panic) is not excluded for in-range arguments" % b.where(bb, "term"))

    def assign(self, st, l, rv):
        if l in self.int_locals:
            x = self.name(l)
            st.lin.pop(l, None)
            if rv["k"] == "use":
                a = rv["a"]
                if a["k"] == "const" and "int" in a["c"]:
                    st.d.assign_const(x, a["c"]["int"])
                    return
                pl = a.get("pl")
                if pl and not pl["p"] and pl["l"] in self.int_locals:
                    st.d.assign_var_plus(x, self.name(pl["l"]), 0)
                    if pl["l"] in st.lin:
                        st.lin[l] = st.lin[pl["l"]]
                    return
                if pl and len(pl["p"]) == 1 and isinstance(pl["p"][0], dict) and pl["p"][0].get("field") == 0 and pl["l"] in st.pending:
                    op, aa, cc = st.pending[pl["l"]]
                    if aa and cc and cc[0] == "Z" and op in ("Add", "Sub"):
                        st.d.assign_var_plus(x, aa[0], aa[1] + (cc[1] if op == "Add" else -cc[1]))
                        return
                    if aa and cc and op == "Sub":
                        strictly = st.lt(cc, aa)
                        st.d.havoc_unsigned(x)
                        st.lin[l] = ("sub", aa, cc)
                        if strictly:
                            st.d.add("Z", x, -1)          # a − c ≥ 1 when c < a is known
                        return
            if rv["k"] == "binop" and rv["op"] in ("Add", "Sub"):
                # release profile: unchecked arithmetic – exact only where wrapping is excluded by the current state
                aa, cc = self.term(rv["a"]), self.term(rv["b"])
                if aa and cc and cc[0] == "Z" and aa[0] != "Z":
                    c = cc[1] if rv["op"] == "Add" else -cc[1]
                    safe = st.d.entails("Z", aa[0], aa[1] + c) if c < 0 else st.d.entails(aa[0], "Z", USIZE_MAX - c - aa[1])
                    if safe:
                        st.d.assign_var_plus(x, aa[0], aa[1] + c)
                        return
                if aa and cc and rv["op"] == "Sub" and aa[0] != "Z" and cc[0] != "Z" and st.le(cc, aa):
                    st.d.havoc_unsigned(x)
                    st.lin[l] = ("sub", aa, cc)
                    return
            st.d.havoc_unsigned(x)
            return
        if rv["k"] == "binop" and rv["op"].endswith("WithOverflow"):
            st.pending[l] = (rv["op"][:-len("WithOverflow")], self.term(rv["a"]), self.term(rv["b"]))
            return
        if rv["k"] == "binop" and rv["op"] in ("Lt", "Le", "Gt", "Ge", "Eq", "Ne"):
            a, c = self.term(rv["a"]), self.term(rv["b"])
            if a and c:
                st.bools[l] = (rv["op"], a, c)
            return
        if rv["k"] == "agg" and (rv.get("adt") or "").startswith("std::ops::Range"):
            fs = [self.term(f) for f in rv["fields"]]
            st.subview[l] = (rv["adt"], fs)
            return
        if rv["k"] == "discr" and not rv["pl"]["p"]:
            if rv["pl"]["l"] in st.ordcmp:
                st.discr_of[l] = rv["pl"]["l"]
            return
        if rv["k"] in ("ref", "use"):
            pl = rv["pl"] if rv["k"] == "ref" else rv["a"].get("pl")
            if pl is None:
                return
            base = pl["l"]
            if rv["k"] == "ref" and not pl["p"] and base in self.int_locals:
                st.refint[l] = (self.name(base), 0)
            elif base in st.refint and all(p == "deref" for p in pl["p"]):
                st.refint[l] = st.refint[base]
            else:
                st.refint.pop(l, None)
            if rv["k"] == "use" and not pl["p"] and base in st.ordcmp:
                st.ordcmp[l] = st.ordcmp[base]
            if all(p == "deref" for p in pl["p"]):
                for m in (st.elem, st.subview, st.val):
                    if base in m:
                        m[l] = m[base]
                    else:
                        m.pop(l, None)

    def switch(self, st, t, nxt):
        dsc = t["discr"]
        if dsc["k"] not in ("move", "copy") or dsc["pl"]["p"]:
            return
        dl = dsc["pl"]["l"]
        if dl in st.discr_of or dl in st.ordcmp:
            a, c = st.ordcmp[st.discr_of.get(dl, dl)]
            taken = None
            vals = []
            for v, tgt in t["arms"]:
                ov = -1 if v in (255, 65535, 4294967295, 18446744073709551615) or (isinstance(v, str)) else v
                vals.append(ov)
                if tgt == nxt and nxt != t["otherwise"]:
                    taken = ov
            if taken is None and nxt == t["otherwise"]:
                rest = [x for x in (-1, 0, 1) if x not in vals]
                taken = rest[0] if len(rest) == 1 else None
            if taken == -1:
                st.d.add(a[0], c[0], c[1] - a[1] - 1)
            elif taken == 0:
                st.d.add(a[0], c[0], c[1] - a[1])
                st.d.add(c[0], a[0], a[1] - c[1])
            elif taken == 1:
                st.d.add(c[0], a[0], a[1] - c[1] - 1)
            return
        info = st.bools.get(dsc["pl"]["l"])
        if info is None or t.get("discr_ty") != "bool":
            return
        f = [tgt for v, tgt in t["arms"] if v == 0]
        ftgt = f[0] if f else None
        truth = True if (nxt == t["otherwise"] and nxt != ftgt) else (False if nxt == ftgt else None)
        if truth is None:
            return
        refine_terms(st.d, info[0], info[1], info[2], truth)

    def is_self(self, e):
        e = ds(e)
        return isinstance(e, tuple) and e[:2] == ("param", 1)

    def call(self, st, bb, t):
        b = self.b
        nm = callee_name(t)
        args = b.call_arg_exprs(bb)
        d = t["dst"]
        cb = self.prog.local_callee_body(t)
        if nm in ("len", "len_of") and args and self.is_self(args[0]) and not d["p"] and d["l"] in self.int_locals:
            st.d.assign_var_plus(self.name(d["l"]), "N", 0)
            return True
        if nm == "index" and len(t["args"]) == 2 and self.is_self(args[0]):
            pos = self.term(t["args"][1])
            if pos is None:
                return False
            self.need(st, "index", st.lt(pos, ("N", 0)), "indexing at %s needs %s < len" % (b.where(bb, "term"), pos))
            st.d.add(pos[0], "N", -1 - pos[1])
            st.elem[d["l"]] = pos
            return True
        if nm == "cmp" and len(t["args"]) == 2 and (t["callee"].get("trait") or "").endswith("cmp::Ord"):
            ls = [x["pl"]["l"] if x["k"] in ("move", "copy") and not x["pl"]["p"] else None for x in t["args"]]
            if ls[0] in st.refint and ls[1] in st.refint and not d["p"]:
                st.ordcmp[d["l"]] = (st.refint[ls[0]], st.refint[ls[1]])
            return True
        if nm == "clone" and len(t["args"]) == 1:
            a = t["args"][0]
            l = a["pl"]["l"] if a["k"] in ("move", "copy") and not a["pl"]["p"] else None
            if l is not None and l in st.elem:
                pos = st.elem[l]
                w = st.fresh("r")
                st.member_relations(w, pos)
                st.facts.add(("pt", pos, ("EQ", w)))
                st.val[d["l"]] = w
                return True
        if cb is not None and cb.key == self.partition_key and self.is_self(args[0]):
            # contract proved by R22 (and R18: returns only for pivot_index < len)
            pv_t = self.term(t["args"][1]) if len(t["args"]) > 1 else None
            self.need(st, "pivot-in-range", pv_t is not None and st.lt(pv_t, ("N", 0)),
                      "partition_mut at %s needs pivot_index < len (R18 proves it panic-free only then)" % b.where(bb, "term"))
            if not d["p"] and d["l"] in self.int_locals:
                k = self.name(d["l"])
                st.d.havoc_unsigned(k)
                st.d.add(k, "N", -1)
                st.facts = set()          # the array is permuted
                pv = st.fresh("pv")
                kt = (k, 0)
                st.facts |= {("pt", kt, ("EQ", pv)), ("seg", ("Z", 0), kt, ("LT", pv)), ("seg", tadd(kt, 1), ("N", 0), ("GE", pv))}
                return True
            return False
        if cb is not None and cb.key in self.self_keys:
            # recursive call on a sub-view: induction hypothesis
            recv = t["args"][0]
            rl = recv["pl"]["l"] if recv["k"] in ("move", "copy") and not recv["pl"]["p"] else None
            sv = st.subview.get(rl)
            if sv is None:
                return False
            lo, hi = sv
            it = t["args"][1]
            il = it["pl"]["l"] if it["k"] in ("move", "copy") and not it["pl"]["p"] else None
            pos = None
            idx_t = self.term(it)
            if il is not None and il in st.lin:
                _, a_, c_ = st.lin[il]
                if st.eq(c_, lo):
                    pos = a_                      # lo + (a − lo) = a
                    st.d.add(lo[0], a_[0], a_[1] - lo[1])
            if pos is None and idx_t is not None and idx_t[0] not in ("Z", "N"):
                # `i - k - 1`: a constant offset on top of a recorded difference  t = a − c  is  a − (c − offset)
                for l2, rec in list(st.lin.items()):
                    if rec[0] != "sub" or pos is not None:
                        continue
                    for off in range(-4, 5):
                        if st.eq((self.name(l2), off), idx_t):        # the passed index is t + off with t = a − c recorded
                            _, a_, c_ = rec
                            c2 = (c_[0], c_[1] - off)
                            if st.eq(c2, lo):
                                pos = a_
                                st.d.add(lo[0], a_[0], a_[1] - lo[1])
                            break
            if pos is None and idx_t is not None and st.eq(lo, ("Z", 0)):
                pos = idx_t
            if pos is None:
                return False
            # callee returns only for idx < len(sub-view)   (R5)
            self.need(st, "recursive-precondition", st.lt(pos, hi) and st.le(lo, pos),
                      "the recursive call at %s must pass an in-range index: position %s inside [%s, %s)" % (b.where(bb, "term"), pos, lo, hi))
            st.d.add(pos[0], hi[0], hi[1] - pos[1] - 1)
            w = st.fresh("w")
            st.member_relations(w, lo, hi)
            nf = set()
            for f in st.facts:
                if f[0] == "seg":
                    inside = st.le(f[1], lo) and st.le(hi, f[2])
                    disjoint = st.le(f[2], lo) or st.le(hi, f[1])
                    if inside or disjoint:
                        nf.add(f)
                else:
                    if st.lt(f[1], lo) or st.le(hi, f[1]):
                        nf.add(f)
            st.facts = nf
            st.facts |= {("pt", pos, ("EQ", w)), ("seg", lo, pos, ("LE", w)), ("seg", tadd(pos, 1), hi, ("GE", w))}
            st.val[d["l"]] = w
            return True
        if nm in ("view_mut", "reborrow") and len(t["args"]) == 1 and self.is_self(args[0]) and not d["p"]:
            st.subview[d["l"]] = (("Z", 0), ("N", 0))          # the whole array as a view
            return True
        if nm == "slice_axis_mut" and self.is_self(args[0]) and len(t["args"]) == 3:
            sl = t["args"][2]
            sll = sl["pl"]["l"] if sl["k"] in ("move", "copy") and not sl["pl"]["p"] else None
            rng = st.subview.get(sll)
            if rng is None:
                return False
            adt, fs = rng
            if adt in ("std::ops::RangeTo", "std::ops::RangeFrom") and fs and fs[0] is not None:
                self.need(st, "slice", st.le(fs[0], ("N", 0)), "slicing at %s needs %s ≤ len" % (b.where(bb, "term"), fs[0]))
            if adt == "std::ops::RangeTo" and fs and fs[0] is not None:
                st.d.add(fs[0][0], "N", -fs[0][1])         # slicing panics unless end ≤ len
                st.subview[d["l"]] = (("Z", 0), fs[0])
                return True
            if adt == "std::ops::RangeFrom" and fs and fs[0] is not None:
                st.d.add(fs[0][0], "N", -fs[0][1])
                st.subview[d["l"]] = (fs[0], ("N", 0))
                return True
            return False
        if nm == "from" and len(t["args"]) == 1:
            a = t["args"][0]
            l = a["pl"]["l"] if a["k"] in ("move", "copy") and not a["pl"]["p"] else None
            if l in st.subview:
                st.subview[d["l"]] = st.subview[l]
            return True
        if not d["p"] and d["l"] in self.int_locals:
            x = self.name(d["l"])
            st.d.havoc_unsigned(x)
            if nm == "gen_range":
                self.notes.append("pivot index is any value of the requested range (gen_range contract: lo ≤ result < hi, panics on an empty range)")
                al = t["args"][1]["pl"]["l"] if len(t["args"]) > 1 and t["args"][1]["k"] in ("move", "copy") and not t["args"][1]["pl"]["p"] else None
                rng = st.subview.get(al)
                if rng and isinstance(rng[0], str) and rng[0] == "std::ops::Range" and all(f is not None for f in rng[1]):
                    lo_, hi_ = rng[1]
                    self.need(st, "pivot-range", st.lt(lo_, hi_), "gen_range at %s panics on an empty range: needs %s < %s" % (b.where(bb, "term"), lo_, hi_))
                    st.d.add(lo_[0], x, -lo_[1])
                    st.d.add(x, hi_[0], hi_[1] - 1)
                else:
                    self.need(st, "pivot-range", False, "gen_range with an unmodelled range at %s" % b.where(bb, "term"))
            return True
        # any other call receiving the array mutably is not modelled
        for ty, a in zip(t["arg_tys"], args):
            if ty.startswith("&mut ") and "ArrayBase" in ty and self.is_self(a):
                return False
        return True

    def prove(self, i_param, assume_in_range=False):
        """assume_in_range: add the precondition `i < len` and collect in self.panic_obs what must hold for no panic"""
        self.i_param = i_param if assume_in_range else None
        self.panic_obs = []
        paths = enumerate_paths(self.b)
        results = []
        it = (self.name(i_param), 0)
        for pi in paths:
            st, ret, why = self.run_path(pi)
            if st == "infeasible":
                continue
            if st is None:
                results.append((list(pi.blocks), False, False, False, why))
                continue
            if ret is None:
                results.append((list(pi.blocks), False, False, False, "returned value is not a tracked element value"))
                continue
            a = st.holds_at(it, ("EQ", ret))
            l = st.covers(("Z", 0), it, ("LE", ret))
            r = st.covers(tadd(it, 1), ("N", 0), ("GE", ret))
            results.append((list(pi.blocks), a, l, r, ""))
        return results
