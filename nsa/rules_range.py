"""R26 — RANGE: value-range analysis of the interpolation formulas (C01 'whenever that value is representable … never outside
[lower, higher]', C19 bracketing / coincidence).

The strategy formulas are generic over the element type T.  Their extracted terms (conversions kept) are interpreted over an
abstract domain of *linear bounds*: every sub-term gets a lower and an upper bound that are linear forms in the two inputs
`lower ≤ higher`, both anywhere in the element type's range [MIN, MAX].  A linear form is extremal at a vertex of the
polytope {MIN ≤ lower ≤ higher ≤ MAX}, so each question (does this intermediate stay inside [MIN, MAX]?  is the result
inside [lower, higher]?) is decided exactly for the bounds by evaluating three vertices symbolically in MAX, for the three
families of element types the property names: unsigned integers (MIN = 0), signed integers (MIN = −MAX−1) and floats
(MIN = −MAX; leaving the range means ±inf).  Nothing is executed; the analysis is sound for exact arithmetic on the bounds
(float rounding is not modelled)."""
from fractions import Fraction as F

from .facts import ds
from .terms import Kernel, TypedKernel, Unrecognised
from .rules_terms import fn_term, show

FAMILIES = ("unsigned", "signed", "float")


def rshow(t):
    """compact, canonical rendering of a typed term (used in obligation keys)"""
    k = t[0]
    if k == "sym":
        return t[1]
    if k == "num":
        return str(t[1])
    if k == "conv":
        return "%s(%s)" % ("f64" if t[1].startswith("to_") else t[1], rshow(t[2]))
    if k == "fn":
        return "fract" if t[1] == "fract" else "%s(%s)" % (t[1], rshow(t[2]))
    if k in ("add", "sub", "mul", "div"):
        return "(%s%s%s)" % (rshow(t[1]), {"add": "+", "sub": "-", "mul": "*", "div": "/"}[k], rshow(t[2]))
    if k == "neg":
        return "-%s" % rshow(t[1])
    return show(t)


# ---- linear forms over {lo, hi, 1}
def lf(lo=0, hi=0, c=0):
    return {"lo": F(lo), "hi": F(hi), "1": F(c)}


def lf_add(a, b, sb=1):
    return {k: a[k] + sb * b[k] for k in a}


def lf_scale(a, c):
    return {k: a[k] * c for k in a}


def at_vertex(form, family, vertex):
    """value of the form at a vertex as (alpha, beta): alpha·MAX + beta"""
    # MIN as (alpha, beta)
    mn = {"unsigned": (F(0), F(0)), "signed": (F(-1), F(-1)), "float": (F(-1), F(0))}[family]
    mx = (F(1), F(0))
    lo, hi = {"min,min": (mn, mn), "min,max": (mn, mx), "max,max": (mx, mx)}[vertex]
    a = form["lo"] * lo[0] + form["hi"] * hi[0]
    b = form["lo"] * lo[1] + form["hi"] * hi[1] + form["1"]
    return a, b


def nonpos_for_all_max(a, b, m0=127):
    """a·M + b ≤ 0 for every M ≥ m0"""
    return a <= 0 and a * m0 + b <= 0


def form_le(f1, f2, family):
    """f1 ≤ f2 on the whole polytope, for every MAX ≥ 127; returns (ok, offending vertex)"""
    d = lf_add(f1, f2, -1)
    for v in ("min,min", "min,max", "max,max"):
        a, b = at_vertex(d, family, v)
        if not nonpos_for_all_max(a, b):
            return False, v
    return True, None


MAXF = {"lo": F(0), "hi": F(0), "1": F(0), "MAX": 1}


def in_type_range(L, U, family):
    """[L, U] ⊆ [MIN, MAX] on the whole polytope; returns (ok, which bound, vertex)"""
    for v in ("min,min", "min,max", "max,max"):
        a, b = at_vertex(U, family, v)
        if not nonpos_for_all_max(a - 1, b):                    # U ≤ MAX
            return False, "upper", v
        a, b = at_vertex(L, family, v)
        mn = {"unsigned": (F(0), F(0)), "signed": (F(-1), F(-1)), "float": (F(-1), F(0))}[family]
        if not nonpos_for_all_max(mn[0] - a, mn[1] - b):        # MIN ≤ L
            return False, "lower", v
    return True, None, None


def sign_known(L, U, family):
    ok_pos, _ = form_le(lf(), L, family)
    ok_neg, _ = form_le(U, lf(), family)
    return "nonneg" if ok_pos else ("nonpos" if ok_neg else None)


class RangeAnalysis:
    def __init__(self, family):
        self.family = family
        self.events = []      # (path, description, ok, detail)

    def domain(self, t):
        if t[0] == "sym":
            return "T" if t[1] in ("lower", "higher") else "f64"
        if t[0] == "num":
            return None
        if t[0] == "conv":
            return "f64" if t[1].startswith("to_") else "T"
        if t[0] == "fn":
            return "f64"
        if t[0] in ("add", "sub", "mul", "div"):
            d1, d2 = self.domain(t[1]), self.domain(t[2])
            return d1 or d2
        if t[0] == "neg":
            return self.domain(t[1])
        return None

    def bounds(self, t, path):
        """(L, U) linear forms or None"""
        k = t[0]
        if k == "sym":
            if t[1] == "lower":
                return lf(lo=1), lf(lo=1)
            if t[1] == "higher":
                return lf(hi=1), lf(hi=1)
            return None
        if k == "num":
            return lf(c=F(t[1]).limit_denominator()), lf(c=F(t[1]).limit_denominator())
        if k == "fn" and t[1] == "fract":
            return ("unit",)                               # [0, 1)
        if k == "conv":
            b = self.bounds(t[2], path + "/" + t[1])
            if b is None or b == ("unit",):
                return b
            if t[1].startswith("from_"):
                self.check(path, rshow(t), b, "T")
            return b
        if k in ("add", "sub"):
            a, c = self.bounds(t[1], path + "/l"), self.bounds(t[2], path + "/r")
            if a is None or c is None or ("unit",) in (a, c):
                return None
            r = (lf_add(a[0], c[0]), lf_add(a[1], c[1])) if k == "add" else (lf_add(a[0], c[1], -1), lf_add(a[1], c[0], -1))
            self.check(path, rshow(t), r, self.domain(t))
            return r
        if k == "div":
            a = self.bounds(t[1], path + "/l")
            if a is None or a == ("unit",) or t[2][0] != "num" or t[2][1] <= 0:
                return None
            c = F(t[2][1]).limit_denominator()
            sg = sign_known(a[0], a[1], self.family)
            if sg == "nonneg":
                r = (lf(), lf_scale(a[1], 1 / c))
            elif sg == "nonpos":
                r = (lf_scale(a[0], 1 / c), lf())
            else:
                r = (lf_scale(a[0], 1 / c), lf_scale(a[1], 1 / c))
            return r
        if k == "mul" and (t[1][0] == "num" or t[2][0] == "num"):
            x, cst = (t[2], t[1]) if t[1][0] == "num" else (t[1], t[2])
            a = self.bounds(x, path + "/l")
            if a is None or a == ("unit",):
                return None
            c = F(cst[1]).limit_denominator()
            r = (lf_scale(a[0], c), lf_scale(a[1], c)) if c >= 0 else (lf_scale(a[1], c), lf_scale(a[0], c))
            self.check(path, rshow(t), r, self.domain(t))
            return r
        if k == "mul":
            a, c = self.bounds(t[1], path + "/l"), self.bounds(t[2], path + "/r")
            if a == ("unit",) and c not in (None, ("unit",)):
                a, c = c, a
            if c == ("unit",) and a not in (None, ("unit",)):
                sg = sign_known(a[0], a[1], self.family)
                if sg == "nonneg":
                    return (lf(), a[1])
                if sg == "nonpos":
                    return (a[0], lf())
                return a
            return None
        return None

    def check(self, path, what, b, dom):
        if b is None or dom is None:
            return
        fam = self.family
        if dom == "f64" and fam != "float":
            return            # f64 arithmetic on converted integers cannot overflow (precision is the documented caveat)
        ok, which, v = in_type_range(b[0], b[1], fam)
        self.events.append((what, ok, "" if ok else "its %s bound leaves the element type's range at (lower, higher) = (%s)" % (which, v.upper())))


def exact_at_coincidence(t):
    """symbolic value of the term when both neighbours are the same lane element L, using only rewrites that are exact in
    machine arithmetic (x − x = 0 for identical operands, 0·x = 0, 0/c = 0, x + 0 = x, conversions of 0); a conversion
    of L to f64 is a *lossy image* F(L) for wide integer types and converting it back is not L.
    returns 'L', 'ZERO', or a description of the inexact value"""
    k = t[0]
    if k == "sym":
        return "L" if t[1] in ("lower", "higher") else ("sym", t[1])
    if k == "num":
        return "ZERO" if t[1] == 0 else ("num", t[1])
    if k == "fn":
        return ("fn", t[1])
    if k == "conv":
        a = exact_at_coincidence(t[2])
        if a == "ZERO":
            return "ZERO"
        if t[1].startswith("to_"):
            return ("F", a)
        if isinstance(a, tuple) and a[0] == "F":
            return ("roundtrip", a[1])
        return (t[1], a)
    if k in ("add", "sub", "mul", "div"):
        a, c = exact_at_coincidence(t[1]), exact_at_coincidence(t[2])
        if k == "sub":
            if a == c:
                return "ZERO"
            if c == "ZERO":
                return a
        if k == "add":
            if a == "ZERO":
                return c
            if c == "ZERO":
                return a
        if k == "mul" and (a == "ZERO" or c == "ZERO"):
            return "ZERO"
        if k == "div" and a == "ZERO":
            return "ZERO"
        return (k, a, c)
    return ("?", k)


def rule_r26_ranges(ctx, prog, rule="R26", bodies=None):
    prog = prog.inlined_view()      # private helpers that do not exist on the reference tree are read in place
    lo, hi, q, n = ("sym", "lower"), ("sym", "higher"), ("sym", "q"), ("sym", "len")
    names = {1: lo, 2: hi, 3: q, 4: n}
    n_ok = 0
    if bodies is None:
        bodies = [(s_, prog.find("<quantile::interpolate::%s as quantile::interpolate::Interpolate<T>>::interpolate" % s_))
                  for s_ in ("Lower", "Higher", "Midpoint", "Linear")]
        floor = 30
    else:
        floor = 1
    for s_, b in bodies:
        try:
            t = fn_term(prog, b, names, kernel_cls=TypedKernel)
        except Unrecognised as ex:
            ctx.ob(rule, "%s/term" % s_, False, b.where(), "anchor not recognised: %s" % ex, what="anchor not recognised")
            continue
        ex = exact_at_coincidence(t)
        ctx.ob(rule, "%s/coincide-exactly" % s_, ex == "L", b.where(),
               "with higher = lower the value is the lane element itself, through machine-exact steps only (x − x, 0·x, 0/c, x + 0, conversions of 0)"
               if ex == "L" else "with higher = lower `%s` evaluates to %s, which is not the lane element bit for bit (a 64-bit integer does not "
               "survive a round trip through f64)" % (rshow(t), ex), what="strategies differ when both neighbours coincide")
        n_ok += 1
        for fam in FAMILIES:
            ra = RangeAnalysis(fam)
            fb = ra.bounds(t, s_)
            seen = set()
            for what, ok, detail in ra.events:
                key = "%s/%s/%s" % (s_, what.replace(" ", ""), fam)
                if key in seen:
                    continue
                seen.add(key)
                n_ok += 1
                ctx.ob(rule, key, ok, b.where(),
                       "intermediate `%s` stays inside the range of every %s element type for all lower ≤ higher" % (what, fam) if ok else
                       "intermediate `%s` can leave the range of a %s element type although the result is representable: %s" % (what, fam, detail),
                       what="interpolation overflows for representable results")
            if fb is None or fb == ("unit",):
                ctx.ob(rule, "%s/bracket/%s" % (s_, fam), False, b.where(), "bounds of `%s` could not be derived" % rshow(t), what="anchor not recognised")
                continue
            okl, vl = form_le(lf(lo=1), fb[0], fam)
            oku, vu = form_le(fb[1], lf(hi=1), fam)
            ctx.ob(rule, "%s/bracket/%s" % (s_, fam), okl and oku, b.where(),
                   "lower ≤ %s ≤ higher for all lower ≤ higher (exact arithmetic)" % rshow(t) if okl and oku else
                   "`%s` can lie outside [lower, higher] (vertex %s)" % (rshow(t), vl or vu), what="quantile outside its two neighbours")
            # coincidence: with higher = lower the bounds collapse to lower
            sub = lambda f: {"lo": f["lo"] + f["hi"], "hi": F(0), "1": f["1"]}
            L0, U0 = sub(fb[0]), sub(fb[1])
            okc = L0 == lf(lo=1) and U0 == lf(lo=1)
            ctx.ob(rule, "%s/coincide/%s" % (s_, fam), okc, b.where(),
                   "with higher = lower the value is exactly lower" if okc else "with higher = lower the value is within [%s, %s], not exactly lower" % (L0, U0),
                   what="strategies differ when both neighbours coincide")
            n_ok += 2
    ctx.floor(rule, n_ok, floor, "range obligations of the interpolation formulas")


# ======================================================================================= C19: laws of the index functions

def monotone(t, var, nonneg):
    """monotonicity of a T-term in the symbol `var` by typing: 'inc' | 'dec' | 'const' | None (unknown).
    nonneg(term) → True if the term is known ≥ 0 (used for constant factors)"""
    k = t[0]
    if k == "sym":
        return "inc" if t[1] == var else "const"
    if k == "num":
        return "const"
    if k == "conv":
        return monotone(t[2], var, nonneg)
    if k == "fn" and t[1] in ("floor", "ceil", "round", "sqrt", "exp", "ln"):
        return monotone(t[2], var, nonneg)
    if k == "neg":
        m = monotone(t[1], var, nonneg)
        return {"inc": "dec", "dec": "inc", "const": "const"}.get(m)
    if k in ("add", "sub"):
        a, c = monotone(t[1], var, nonneg), monotone(t[2], var, nonneg)
        if k == "sub":
            c = {"inc": "dec", "dec": "inc", "const": "const"}.get(c)
        if a is None or c is None:
            return None
        if a == "const":
            return c
        if c == "const" or a == c:
            return a
        return None
    if k == "mul":
        a, c = monotone(t[1], var, nonneg), monotone(t[2], var, nonneg)
        if a == "const" and c == "const":
            return "const"
        if a == "const" and c is not None and nonneg(t[1]):
            return c
        if c == "const" and a is not None and nonneg(t[2]):
            return a
        return None
    if k == "div":
        a, c = monotone(t[1], var, nonneg), monotone(t[2], var, nonneg)
        if c == "const" and a is not None and nonneg(t[2]):
            return a
        return None
    return None


def rule_c19_indexes(ctx, prog, rule="R27"):
    """lower_index / higher_index are floor / ceil of ONE quantity that is non-decreasing in q, 0 at q = 0 and len−1 at q = 1"""
    prog = prog.inlined_view()      # private helpers that do not exist on the reference tree are read in place
    from .terms import sympy_equal, subst_t, canon_op
    q, n = ("sym", "q"), ("sym", "len")
    lob = prog.find("quantile::interpolate::lower_index")
    hib = prog.find("quantile::interpolate::higher_index")
    frb = prog.find("quantile::interpolate::float_quantile_index_fraction", required=False)
    try:
        tl = fn_term(prog, lob, {1: q, 2: n})
        th = fn_term(prog, hib, {1: q, 2: n})
        tf = fn_term(prog, frb, {1: q, 2: n}) if frb is not None else None
    except Unrecognised as ex:
        ctx.ob(rule, "indexes/terms", False, lob.where(), "anchor not recognised: %s" % ex, what="anchor not recognised")
        return
    ok_shape = tl[0] == "fn" and tl[1] == "floor" and th[0] == "fn" and th[1] == "ceil" and canon_op(tl[2]) == canon_op(th[2])
    ctx.ob(rule, "indexes/floor-ceil-of-one-quantity", ok_shape, lob.where(),
           "lower_index = floor(x), higher_index = ceil(x) with the same x = %s: they agree exactly when x is integral, and then every "
           "strategy is applied to one and the same looked-up element" % show(tl[2]) if ok_shape else
           "lower_index = %s and higher_index = %s are not floor/ceil of one quantity" % (show(tl), show(th)),
           what="strategies need not coincide at integral positions")
    if not ok_shape:
        return
    x = tl[2]
    if tf is not None:
        okf = tf[0] == "fn" and tf[1] == "fract" and canon_op(tf[2]) == canon_op(x)
        ctx.ob(rule, "indexes/fraction-of-the-same-quantity", okf, frb.where(),
               "the interpolation fraction is fract(x) of the same x" if okf else "fraction = %s is not fract of %s" % (show(tf), show(x)),
               what="fraction and neighbours computed from different positions")
    # lanes have length ≥ 1 on every success path (EmptyInput otherwise: C17), so len − 1 ≥ 0
    nonneg = lambda t: t == ("sub", n, ("num", 1)) or (t[0] == "num" and t[1] >= 0) or t == n
    m = monotone(x, "q", nonneg)
    ctx.ob(rule, "indexes/non-decreasing-in-q", m in ("inc", "const"), lob.where(),
           "x = %s is non-decreasing in q (len − 1 ≥ 0), and floor/ceil preserve that: both neighbour positions are non-decreasing in q" % show(x)
           if m in ("inc", "const") else "monotonicity of %s in q could not be established (%s)" % (show(x), m),
           what="neighbour positions not monotone in q")
    try:
        res = sympy_equal([(subst_t(x, {"q": ("num", 0)}), ("num", 0)), (subst_t(x, {"q": ("num", 1)}), ("sub", n, ("num", 1)))])
        ok0, ok1 = res[0]["equal"] is True, res[1]["equal"] is True
    except Unrecognised as ex:
        ok0 = ok1 = False
    ctx.ob(rule, "indexes/q0-is-first", ok0, lob.where(), "x(q = 0) = 0: both neighbours are position 0, the lane minimum (C02)" if ok0 else
           "x(q = 0) is not 0", what="q = 0 does not select the minimum")
    ctx.ob(rule, "indexes/q1-is-last", ok1, lob.where(), "x(q = 1) = len − 1: both neighbours are the last position, the lane maximum (C02)" if ok1 else
           "x(q = 1) is not len − 1", what="q = 1 does not select the maximum")
    inb = m in ("inc", "const") and ok0 and ok1
    ctx.ob(rule, "indexes/in-bounds-for-valid-q", inb, lob.where(),
           "x is non-decreasing in q with x(0) = 0 and x(1) = len − 1, so 0 ≤ x ≤ len − 1 for every accepted q ∈ [0,1] and floor(x), ceil(x) "
           "are positions of the lane: the in-bounds half of the bulk selection's precondition holds at the quantile call sites "
           "(q ∈ [0,1] is the guard checked by C17/R6)" if inb else "0 ≤ x ≤ len − 1 for q ∈ [0,1] is not established",
           what="a requested position can lie outside the lane")


def rule_c19_fraction_monotone(ctx, prog, rule="R27"):
    """at fixed neighbours lower ≤ higher every strategy is non-decreasing in the interpolation fraction"""
    prog = prog.inlined_view()      # private helpers that do not exist on the reference tree are read in place
    lo, hi, q, n = ("sym", "lower"), ("sym", "higher"), ("sym", "q"), ("sym", "len")

    def strip_conv(t):
        if not isinstance(t, tuple):
            return t
        if t[0] == "conv":
            return strip_conv(t[2])
        return tuple(strip_conv(x) if isinstance(x, tuple) else x for x in t)

    def defract(t):
        if not isinstance(t, tuple):
            return t
        if t[0] == "fn" and t[1] == "fract":
            return ("sym", "FR")
        return tuple(defract(x) if isinstance(x, tuple) else x for x in t)

    nonneg = lambda t: strip_conv(t) == ("sub", hi, lo) or (t[0] == "num" and t[1] >= 0)
    for s_ in ("Lower", "Higher", "Midpoint", "Linear"):
        b = prog.find("<quantile::interpolate::%s as quantile::interpolate::Interpolate<T>>::interpolate" % s_)
        try:
            t = fn_term(prog, b, {1: lo, 2: hi, 3: q, 4: n}, kernel_cls=TypedKernel)
        except Unrecognised as ex:
            ctx.ob(rule, "%s/fraction-monotone" % s_, False, b.where(), "anchor not recognised: %s" % ex, what="anchor not recognised")
            continue
        m = monotone(defract(t), "FR", nonneg)
        ctx.ob(rule, "%s/fraction-monotone" % s_, m in ("inc", "const"), b.where(),
               "`%s` is %s in the fraction for lower ≤ higher" % (rshow(t), "independent of" if m == "const" else "non-decreasing") if m in ("inc", "const") else
               "`%s`: monotonicity in the fraction not established" % rshow(t), what="quantile can decrease while q increases inside a segment")
