"""Thorough-tier extras: type-level witnesses, clippy cross-reference of R1, corpus self-test for the property, and the
structural rules re-run on the release profile."""
import json
import os
import re
import subprocess

from .facts import VERIF, repo_path

WITNESS_PROPS = {"C03", "C04", "C11", "C13", "C16", "C18", "C19", "C20"}
CLIPPY_PROPS = {"C20", "C03", "C04"}


def run_witnesses(ctx):
    env = dict(os.environ, CARGO_TARGET_DIR=os.path.join(VERIF, ".cache", "witness-target"), CARGO_NET_OFFLINE="true")
    p = subprocess.run(["cargo", "+nightly", "test", "--doc", "--offline"], cwd=os.path.join(VERIF, "witness"), env=env,
                       stdout=subprocess.PIPE, stderr=subprocess.STDOUT, text=True)
    m = re.search(r"test result: (\w+)\. (\d+) passed; (\d+) failed", p.stdout)
    passed = int(m.group(2)) if m else 0
    failed = int(m.group(3)) if m else -1
    ok = p.returncode == 0 and failed == 0 and passed >= 17
    failing = re.findall(r"^test (src/lib.rs - \S+ \(line \d+\)) \.\.\. FAILED", p.stdout, re.M)
    ctx.ob("W", "witnesses/compile_fail-and-twins", ok, "witness/src/lib.rs",
           "%d doctests: every compile_fail witness fails with its declared error code and every twin compiles" % passed if ok else
           "witness crate: %d passed, %d failed (%s): an encapsulation fact the ownership rules rely on no longer holds from outside the crate"
           % (passed, failed, ", ".join(failing) or p.stdout[-300:]), what="type-level witness failed")
    ctx.extras["witnesses"] = {"passed": passed, "failed": failed}


def run_clippy(ctx):
    repo = repo_path()
    env = dict(os.environ, CLIPPY_CONF_DIR=os.path.join(VERIF, "clippy"), CARGO_TARGET_DIR=os.path.join(VERIF, ".cache", "clippy-target"),
               CARGO_NET_OFFLINE="true")
    p = subprocess.run(["cargo", "+nightly", "clippy", "--offline", "--lib", "--message-format=json", "--",
                        "-A", "clippy::all", "-W", "clippy::disallowed_methods"], cwd=repo, env=env,
                       stdout=subprocess.PIPE, stderr=subprocess.PIPE, text=True)
    sites = set()
    for l in p.stdout.splitlines():
        try:
            m = json.loads(l)
        except ValueError:
            continue
        if m.get("reason") == "compiler-message":
            msg = m["message"]
            if msg.get("code") and "disallowed_methods" in (msg["code"].get("code") or ""):
                sp = msg["spans"][0]
                # macro expansions: report the expansion site inside the crate
                sites.add("%s:%d" % (sp["file_name"], sp["line_start"]))
    r1_sites = {o["where"] for o in ctx.obs if o["rule"].startswith("R1")}
    missing = sorted(sites - r1_sites)
    ok = p.returncode == 0 and not missing
    ctx.ob("CLIPPY", "disallowed_methods/agrees-with-R1", ok, "",
           "clippy's disallowed_methods (same ban list, clippy's own resolution) reports %d sites, all known to R1" % len(sites) if ok else
           "clippy reports layout/raw API sites that R1 did not see: %s (clippy rc=%d)" % (missing, p.returncode),
           what="independent inventory disagrees with R1")
    ctx.extras["clippy_sites"] = sorted(sites)


def run_corpus_subset(ctx, prop):
    """self-test: patches written against this property must be reported, neutral ones must stay silent"""
    from tools_corpus import patches, run   # type: ignore
    res = []
    from concurrent.futures import ThreadPoolExecutor
    # large structural rewrites (kind neutral_large) are documented incompleteness: their outcome is reported by tools/corpus.py,
    # it is neither required nor forbidden here
    todo = [p for p in patches() if p["prop"] == prop and p["kind"] != "neutral_large"]
    with ThreadPoolExecutor(max_workers=6) as ex:
        results = list(ex.map(lambda q: run(q, only_prop=prop), todo))
    for p, r in zip(todo, results):
        fired = sorted(r.get("fired", {}))
        expect_fire = p["kind"] != "neutral"
        good = (prop in fired) if expect_fire else (not fired)
        res.append({"patch": p["name"], "kind": p["kind"], "fired": fired, "as_expected": good})
    ctx.extras["corpus_self_test"] = res
    bad = [r for r in res if not r["as_expected"]]
    ctx.ob("CORPUS", "%s/self-test" % prop, not bad, "",
           "%d corpus patches for this property behave as expected (breaking ones reported, neutral ones silent)" % len(res) if not bad else
           "checker self-test: %s" % [(b["patch"], b["kind"], b["fired"]) for b in bad], what="checker self-test failed")


RELEASE_PROOFS = {"C02": ("R24", "R25", "R22"), "C15": ("R22",), "C01": ("R25", "R22"), "C19": ("R25", "R22"), "C04": ("R21",)}


def run_release_proofs(ctx, prop):
    """the value-level proofs of Engine F once more on the release-profile MIR (unchecked arithmetic: every `x − c` the
    proofs rely on must be shown not to wrap, where the dev profile has an overflow assert)"""
    from . import rules_segments as RSG
    prog = ctx.prog("rel")
    for r in RELEASE_PROOFS.get(prop, ()):
        rule = r + "@rel"
        if r == "R24":
            RSG.rule_r24_selection(ctx, prog, rule=rule)
        elif r == "R25":
            RSG.rule_r25_bulk_selection(ctx, prog, rule=rule)
        elif r == "R22":
            RSG.rule_r22_partition(ctx, prog, rule=rule)
        elif r == "R21":
            RSG.rule_r21_compaction(ctx, prog, rule=rule)


def run_release_profile(ctx, prop):
    """the whole property once more on the release-profile MIR (no debug assertions, no overflow checks, other temporaries):
    every obligation that holds on the dev profile must hold there too.  The zone analysis (R18) discharges overflow *asserts*,
    which the release profile does not have: its floors are not applicable there."""
    from . import core, props

    class RelCtx(core.Ctx):
        def prog(self, profile="dev"):
            return core.Ctx.prog(self, "rel")
    rc = RelCtx(prop, "thorough")
    props.PROPS[prop](rc)
    known = {k["key"] for k in core.load_known() if k["property"] == prop and k.get("status") == "known"}
    bad = [o for o in rc.obs if not o["ok"] and o["key"] not in known
           and not (o["rule"].startswith("R18") and "anchor-missing" in o["key"])]
    ctx.extras["release_profile"] = {"obligations": len(rc.obs), "failed": [o["key"] for o in bad]}
    ctx.ob("REL", "release-profile/all-obligations", not bad, "",
           "all %d obligations of this property also hold on the release-profile MIR" % len(rc.obs) if not bad else
           "on the release-profile MIR these obligations fail: %s" % "; ".join("%s (%s)" % (o["key"], o["detail"][:120]) for o in bad[:3]),
           what="release build differs")
