"""Per-property rule sets (DESIGN.md §4)."""
from . import rules_layout as RL
from . import rules_select as RS
from . import rules_guard as RG
from .facts import AnchorMissing

TRUSTED = [
    "rustc type checking, name resolution and MIR construction (nightly 1.97, mir-opt-level=0)",
    "documented semantics of ndarray 0.16 (swap, Index, Zip/iter pair by logical index, lanes are disjoint, from_shape_ptr builds the view it is told to)",
    "std (sort_unstable, dedup, binary_search, slice indexing), noisy_float, rand::gen_range, indexmap",
    "lawful Ord/PartialOrd implementations of element types",
]


def source_fn(b):
    sp = b.raw.get("sp", {})
    exp = sp.get("exp")
    return not (exp and "Derive" in exp.get("kind", ""))


def all_roots(prog):
    return [b for b in prog.bodies.values() if not b.is_closure and source_fn(b)]


def c20(ctx):
    prog = ctx.prog("dev")
    scanned, sites = RL.rule_r1(ctx, prog)
    ctx.floor("R1", scanned, 380, "bodies scanned")
    ctx.floor("R1", sites, 1000, "call sites scanned")
    roots = all_roots(prog)
    n = RL.rule_r8(ctx, prog, roots)
    ctx.floor("R8", n, 30, "axis-typed call arguments")
    pairs = RL.rule_r9(ctx, prog, roots)
    ctx.floor("R9", len(pairs), 12, "zip sites")
    RL.rule_impl_headers(ctx, prog)
    return dict(
        level="proof",
        explanation="Sufficient condition for layout independence, decided on the resolved MIR of every body: "
                    "(R1) no call to an ndarray/std API that exposes strides, offsets or raw storage outside the audited helper "
                    "maybe_nan::cast_view_mut; (R8) every Axis-typed argument is the caller's axis parameter unchanged, or a "
                    "constant only on 1-D receivers / in the four routines with a documented axis convention; (R9) both sides of "
                    "every zip are undisturbed logical producers; (IMPL) each extension trait is implemented once, generically in "
                    "the storage parameter. Float summation order inside ndarray's fold/sum is the roundoff the property allows.",
    )


def c16(ctx):
    n = 0
    for prof in ("rel", "dev"):
        prog = ctx.prog(prof)
        mc = RS.MustCheck(ctx, prog, rule="R5[%s]" % prof)
        part = prog.method("Sort1dExt", "partition_mut")
        sel = prog.method("Sort1dExt", "get_from_sorted_mut")
        bulk = prog.method("Sort1dExt", "get_many_from_sorted_mut")
        edges_index = prog.find("histogram::bins::Edges<A> as std::ops::Index<usize>>::index")
        bins_index = prog.find("histogram::bins::Bins::<A>::index")
        grid_index = prog.find("histogram::grid::Grid::<A>::index")
        mc.strict(part, 2)
        mc.strict(edges_index, 2)
        mc.strict(sel, 2)
        mc.bulk(bulk, 2)
        mc.bins_index(bins_index, 2)
        mc.grid_index(grid_index, 2, bins_index)
    ctx.floor("R5", len([o for o in ctx.obs if o["rule"].startswith("R5")]), 16, "must-check obligations (8 per profile)")
    return dict(
        level="other",
        explanation="Rejection direction of C16, decided as a must-pass-through property of the CFG in both build profiles "
                    "(release: no debug_assert!, no overflow checks; constant-false branches pruned first): every entry→return path of "
                    "partition_mut, get_from_sorted_mut, get_many_from_sorted_mut, Edges::index, Bins::index and Grid::index passes an "
                    "operation that diverges unless position < length (bounds-checked Index by the position, an assert comparing it with "
                    "len(self), or delegation to a verified callee on a sub-view with the index shifted by the same amount). "
                    "The converse (in-range calls never panic) is decided for leaf functions by R18 under C15/C16 where implemented.",
    )


def c17(ctx):
    prog = ctx.prog("dev")
    n, e = RG.rule_r6(ctx, prog)
    ctx.floor("R6", n, 48, "tabled fallible routines")
    ctx.floor("R6", e, 55, "error exits extracted")
    nf = RG.rule_from_impls(ctx, prog)
    ctx.floor("R6", nf, 6, "error conversion impls")
    return dict(
        level="other",
        explanation="Decision-table conformance of every fallible routine: the ordered sequence of error exits (guard condition class, "
                    "subjects, error variant, payload provenance) is extracted from the MIR of each of the tabled routines (private helpers "
                    "inlined, `?` and From conversions applied symbolically) and compared with the table transcribed from the property: "
                    "EmptyInput first, ShapeMismatch(self shape, argument shape) second, InvalidQuantile(first offending q) before the "
                    "axis-emptiness check, sum-type routines accept empty input, derived routines delegate with unchanged roles, and no "
                    "panic is decided before a documented error exit. Guards are pure functions of shapes and q, so each cell holds for all inputs.",
    )


PROPS = {"C20": c20, "C16": c16, "C17": c17}
