"""R28 TRANSPARENT-WRAPPER and R29 MISSING-DEF (C14, C04).

R28: `NotNone<T>` is the element type of Option lanes after stripping; the skip-NaN routines equal the plain ones on the stripped
data only if every operation on `NotNone<T>` is T's own operation of the same name.  Every trait method implemented for
NotNone<T> must contain exactly one call of the same-named method of the same trait on `T`, and the provided methods of
ToPrimitive / FromPrimitive / PartialOrd whose defaults differ from T's own (num-traits routes the defaults of to_f64 & co.
through i64/u64) must all be forwarded explicitly – the set confirmed on today's tree is the reference.

R29: what counts as *missing* is the element type's own test: floats – `is_nan()` of the value, Option – `is_none()`; the
compaction (R21) and the lane-wise routines are correct relative to that predicate only."""
import re

from .facts import callee_name, ds, fmt

FORWARDED = {
    "num_traits::ToPrimitive": ["to_isize", "to_i8", "to_i16", "to_i32", "to_i64", "to_i128", "to_usize", "to_u8", "to_u16", "to_u32", "to_u64",
                                "to_u128", "to_f32", "to_f64"],
    "num_traits::FromPrimitive": ["from_isize", "from_i8", "from_i16", "from_i32", "from_i64", "from_i128", "from_usize", "from_u8", "from_u16",
                                  "from_u32", "from_u64", "from_u128", "from_f32", "from_f64"],
    "std::cmp::PartialOrd": ["partial_cmp", "lt", "le", "gt", "ge"],
    "std::cmp::Ord": ["cmp"],
    "std::cmp::PartialEq": ["eq"],
    "std::ops::Add": ["add"], "std::ops::Sub": ["sub"], "std::ops::Mul": ["mul"], "std::ops::Div": ["div"], "std::ops::Rem": ["rem"],
}
NOT_FORWARDING = ("std::ops::Deref", "std::ops::DerefMut", "std::fmt::Display", "std::fmt::Debug", "std::clone::Clone")


def rule_r28_notnone_transparent(ctx, prog, rule="R28"):
    pat = re.compile(r"impl_not_none::<impl (.+) for maybe_nan::NotNone<T>>::([A-Za-z0-9_]+)$")
    seen = {}
    for k, b in prog.bodies.items():
        m = pat.search(k)
        if not m or b.is_closure:
            continue
        tr, name = m.group(1), m.group(2)
        if tr in NOT_FORWARDING:
            continue
        seen.setdefault(tr, set()).add(name)
        group = [b] + prog.closures_of(b)
        same = []
        other_t = []
        for g in group:
            for bb, t in g.calls():
                c = t["callee"]
                if c.get("self_ty") == "T" and (c.get("trait") or "") == tr:
                    (same if callee_name(t) == name else other_t).append(callee_name(t))
        ok = len(same) == 1 and not other_t
        detail = "= T's own `%s` on the wrapped value" % name if ok else "does not forward to T::%s exactly once (calls on T: %s)" % (name, same + other_t)
        if not ok and not same and not other_t:
            # T's method handed as a function item to a private helper that applies it: `combine(self, rhs, Add::add)`
            via = via_function_item(prog, b, tr, name)
            if via is not None:
                roles, want = via
                ok = roles == want
                detail = ("= T's own `%s`, applied by a private helper to the wrapped values in parameter order" % name if ok else
                          "T::%s is applied by a helper to the parameters in the roles %s instead of %s" % (name, roles, want))
                ctx.ob(rule, "NotNone/%s::%s/forwards" % (tr.rsplit("::", 1)[-1], name), ok, b.where(), detail, what="wrapper changes the operation")
                continue
        if ok:
            # operand roles: the k-th operand of T's method is (the value wrapped in) the k-th parameter – `self.cmp(self)`,
            # `rhs - self` keep the method name and change the operation
            roles = None
            for g in group:
                for bb, t in g.calls():
                    c = t["callee"]
                    if c.get("self_ty") == "T" and (c.get("trait") or "") == tr and callee_name(t) == name:
                        roles = [operand_role(prog, g, a) for a in g.call_arg_exprs(bb)]
            want = list(range(1, len(roles or []) + 1))
            if roles != want:
                ok = False
                detail = "T::%s receives the parameters in the roles %s instead of %s: not the same operation on the wrapped values" % (name, roles, want)
        ctx.ob(rule, "NotNone/%s::%s/forwards" % (tr.rsplit("::", 1)[-1], name), ok, b.where(), detail, what="wrapper changes the operation")
    n = 0
    for tr, names in FORWARDED.items():
        have = seen.get(tr, set())
        for nm in names:
            n += 1
            if nm not in have:
                ctx.ob(rule, "NotNone/%s::%s/forwards" % (tr.rsplit("::", 1)[-1], nm), False, "src/maybe_nan/impl_not_none.rs",
                       "`%s` is not implemented for NotNone<T>: the trait's default is used instead of T's own method (num-traits defaults "
                       "convert through i64/u64; PartialOrd defaults go through partial_cmp)" % nm, what="wrapper changes the operation")
    ctx.floor(rule, sum(len(v) for v in seen.values()), 40, "trait methods of NotNone<T>")
    return n


def via_function_item(prog, b, tr, name):
    """`helper(a1, a2, <T as Tr>::name)` with helper private and applying its function parameter once to (payloads of) its other
    parameters → (roles of the applied operands in terms of b's parameters, expected [1, 2, …])"""
    for bb, t in b.calls():
        h = prog.local_callee_body(t)
        if h is None or h.is_closure or h.key in prog.exported:
            continue
        args = [ds(a) for a in b.call_arg_exprs(bb)]
        fpos = [i for i, a in enumerate(args) if isinstance(a, tuple) and a[0] == "fn" and a[1] == "%s::%s" % (tr, name)
                and all(x == "T" for x in (a[2] or ()))]
        if len(fpos) != 1:
            continue
        fparam = fpos[0] + 1
        applied = []
        for hbb, ht in h.calls():
            if callee_name(ht) in ("call_once", "call_mut", "call"):
                ha = [ds(a) for a in h.call_arg_exprs(hbb)]
                if ha and isinstance(ha[0], tuple) and ha[0][:2] == ("param", fparam) and len(ha) == 2 and isinstance(ha[1], tuple) and ha[1][0] == "agg":
                    applied.append([operand_role(prog, h, x) for x in ha[1][3]])
        if len(applied) != 1:
            return None
        caller_roles = {i + 1: operand_role(prog, b, a) for i, a in enumerate(args) if i != fpos[0]}
        roles = [caller_roles.get(r) for r in applied[0]]
        return roles, list(range(1, len(roles) + 1))
    return None


def operand_role(prog, g, e, depth=0):
    """index of the routine parameter an operand is (the payload of): through deref / unwrap / clone / field projections, closure
    captures, and the item of `map` applied to a parameter"""
    from .rules_layout import up
    for _ in range(12):
        e = ds(e)
        if not isinstance(e, tuple):
            return None
        if e[0] == "call" and e[1] in ("deref", "unwrap", "clone", "as_ref", "borrow", "into_inner", "expect", "to_owned", "into", "deref_mut") and e[3]:
            e = e[3][0]
            continue
        if e[0] in ("field", "downcast", "deref", "ref"):
            e = e[1]
            continue
        if e[0] == "upvar":
            g, e = up(prog, g, e)
            continue
        if e[0] == "param":
            if not g.is_closure:
                return e[1]
            site = prog.closure_site(g.key)
            if site is None or depth > 3:
                return None
            parent = site[0]
            for cbb, ct in parent.calls():
                if callee_name(ct) in ("map", "and_then", "map_or", "then"):
                    args = parent.call_arg_exprs(cbb)
                    if any(isinstance(ds(a), tuple) and ds(a)[:3] == ("agg", "closure", g.key) for a in args[1:]):
                        return operand_role(prog, parent, args[0], depth + 1)
            return None
        return None
    return None


def rule_r29_missing_definition(ctx, prog, rule="R29"):
    n = 0
    for k, b in prog.bodies.items():
        if not k.endswith(" as maybe_nan::MaybeNan>::is_nan") or b.is_closure:
            continue
        n += 1
        ty = k[1:k.index(" as maybe_nan::MaybeNan")]
        r = ds(b.return_expr())
        want = "is_none" if ty.startswith("std::option::Option<") else "is_nan"
        ok = isinstance(r, tuple) and r[0] == "call" and r[1] == want and len(r[3]) == 1 and ds(r[3][0])[:2] == ("param", 1)
        if ok and want == "is_nan":
            ok = ty in ("f32", "f64") and (ty in r[2])
        ctx.ob(rule, "%s/is_nan" % ty.replace("std::option::", "").replace("noisy_float::NoisyFloat<", "N<").replace(", noisy_float::checkers::NumChecker>", ">"), ok, b.where(),
               "missing ⇔ %s(self)" % want if ok else "`is_nan` is `%s`, not the type's own %s test: values that are not missing would be stripped "
               "(or missing ones kept)" % (fmt(r)[:80], want), what="definition of a missing value changed")
    ctx.floor(rule, n, 14, "MaybeNan::is_nan implementations")
    return n
