"""R11 FIELD-OWN, R16 COUNT, lookup/accessor delegation (DESIGN.md §4 C11, C13)."""
from .facts import callee_name, ds, fmt, walk
from .facts import strip as _strip


def strip(e):
    """in this module objects are compared modulo borrows at every level"""
    return ds(e)

from .rules_layout import short, up
from .rules_unsafe import branch_dominates
from .rules_guard import Routine


def is_derive(b):
    exp = b.raw.get("sp", {}).get("exp")
    return bool(exp and "Derive" in exp.get("kind", ""))


def field_in_place(pl, adt, field):
    for pe in pl["p"]:
        if isinstance(pe, dict) and pe.get("adt") == adt and pe.get("name") == field:
            return True
    return False


def field_mut_uses(prog, adt, field):
    """(body, bb, idx, kind) for every assignment to / mutable borrow of `adt.field` anywhere in the crate"""
    out = []
    for b in prog.bodies.values():
        if is_derive(b):
            continue
        for bb in b.live_blocks():
            blk = b.blocks[bb]
            for si, s in enumerate(blk["stmts"]):
                if s["k"] != "assign":
                    continue
                if field_in_place(s["dst"], adt, field):
                    out.append((b, bb, si, "assign"))
                rv = s["rv"]
                if rv["k"] in ("ref", "rawptr") and rv["mut"] and field_in_place(rv["pl"], adt, field):
                    out.append((b, bb, si, "borrow-mut"))
            t = blk["term"]
            if t["k"] == "call" and field_in_place(t["dst"], adt, field):
                out.append((b, bb, "term", "assign"))
            if t["k"] == "call":
                for a in t["args"]:
                    if a["k"] == "move" and field_in_place(a["pl"], adt, field):
                        out.append((b, bb, "term", "move-out"))
    return out


def aggregates_of(prog, adt):
    out = []
    for b in prog.bodies.values():
        for bb, si, s in b.assigns():
            if s["rv"]["k"] == "agg" and s["rv"].get("adt") == adt:
                out.append((b, bb, si))
    return out


def rule_field_own(ctx, prog, adt, field, writers, rule="R11", constructors=None):
    """`adt.field` is written / mutably borrowed only inside `writers` (body key suffixes); the struct is
    built only inside `constructors`"""
    uses = field_mut_uses(prog, adt, field)
    n = 0
    for (b, bb, si, kind) in uses:
        n += 1
        ok = any(b.key.endswith(w) or (b.is_closure and b.root and b.root.endswith(w)) for w in writers)
        if not ok and kind == "borrow-mut" and not b.is_closure and b.key not in prog.exported:
            # a private accessor (`fn count_mut(&mut self, idx) -> &mut usize`): the borrow it hands out is used only where it is
            # called – acceptable when every caller is an audited owner (R16 reads the accessor in place)
            callers = prog.callers().get(b.key, [])
            ok = bool(callers) and all(any(cb_.key.endswith(w) or (cb_.is_closure and cb_.root and cb_.root.endswith(w)) for w in writers)
                                       for (cb_, _bb) in callers)
        ctx.ob(rule, "%s.%s/%s/%s" % (adt.split("::")[-1], field, kind, short(b.key)), ok, b.where(bb, si),
               "%s of the invariant-carrying field in its audited owner" % kind if ok else
               "`%s.%s` is %s in `%s`, outside its audited owners %s: the invariant established at construction can be broken"
               % (adt.split("::")[-1], field, {"assign": "assigned", "borrow-mut": "mutably borrowed", "move-out": "moved out"}[kind],
                  b.key, writers), what="invariant field written outside its owner")
    if constructors is not None:
        # a constructor that establishes nothing (no call at all: it only moves its parameter into the field) may be
        # bypassed by a struct literal elsewhere in the module without weakening any invariant
        trivial = False
        cbodies = [b for b in prog.bodies.values() if any(b.key.endswith(c) for c in constructors) and not b.is_closure]
        if cbodies and all(not list(cb.calls()) and not any(cb.term(x)["k"] == "switch" for x in cb.live_blocks()) for cb in cbodies):
            trivial = True
        for (b, bb, si) in aggregates_of(prog, adt):
            if is_derive(b):
                continue
            n += 1
            ok = any(b.key.endswith(c) for c in constructors)
            if not ok and trivial:
                ctx.ob(rule, "%s/constructed-in/%s" % (adt.split("::")[-1], short(b.key)), True, b.where(bb, si),
                       "struct literal outside the constructor, which itself establishes no invariant (it only stores its argument)")
                continue
            ctx.ob(rule, "%s/constructed-in/%s" % (adt.split("::")[-1], short(b.key)), ok, b.where(bb, si),
                   "constructed by its audited constructor" if ok else
                   "`%s` is constructed in `%s`, bypassing the constructor that establishes its invariant" % (adt, b.key),
                   what="struct built outside its constructor")
    a = prog.adts.get(adt)
    if a is None:
        ctx.ob(rule, "%s/exists" % adt, False, "", "anchor missing: ADT %s" % adt, what="anchor missing")
        return n
    f = [x for v in a["variants"] for x in v["fields"] if x["name"] == field]
    ok = bool(f) and not f[0]["public"]
    ctx.ob(rule, "%s.%s/private" % (adt.split("::")[-1], field), ok, "%s:%s" % (a["sp"]["file"], a["sp"]["line"]),
           "field is private to its module" if ok else "field `%s` is public (or missing): any crate can break the invariant" % field,
           what="invariant field exposed")
    return n


def rule_no_mut_self(ctx, prog, adts, rule="R11", allow=()):
    """no inherent/trait method of these types takes `&mut self` or `self` by value returning a mutable handle"""
    n = 0
    for b in prog.bodies.values():
        if b.is_closure or is_derive(b):
            continue
        st = b.raw.get("impl_self") or ""
        if not any(st.startswith(a + "<") or st == a for a in adts):
            continue
        n += 1
        ins = b.raw.get("inputs", [])
        bad = bool(ins) and ins[0].startswith("&mut ") and any(ins[0].startswith("&mut " + a) for a in adts)
        if any(b.key.endswith(x) for x in allow):
            bad = False
        out = b.raw.get("output", "")
        lends = out.startswith("&mut ")
        ctx.ob(rule, "%s/no-mut-self" % short(b.key), not bad and not lends, b.where(),
               "takes %s" % (ins[0] if ins else "no receiver") if not bad and not lends else
               "`%s` takes `%s` / returns `%s`: a mutator on a type whose invariant (sorted, deduplicated edges) is only established "
               "at construction" % (b.key, ins[0] if ins else "", out), what="mutator on an immutable-by-design type")
    return n


def position_source(prog, body, e):
    """where an operand of a per-axis call comes from, *with the position it is taken at*:
       → (producer body, collection root expr, position id) or None.
    Position ids: ("trav", <iterator expr>) for a component of the item of one traversal (zip / enumerate item), or for
    `C[k]` with k the enumerate counter of that traversal;  ("range", <closure or loop key>) for `C[k]` with k the item of a
    range traversal `0..n`.  Two operands with the same id are the elements at the same position of their collections."""
    from . import terms as T
    from .rules_layout import producer_chain, up
    e = strip(e)
    # C[k]
    x = e
    for _ in range(3):
        if isinstance(x, tuple) and x[0] in ("deref", "ref"):
            x = strip(x[1])
        elif isinstance(x, tuple) and x[0] == "call" and x[1] in ("clone", "deref", "borrow", "as_ref") and x[3]:
            x = strip(x[3][0])
    if isinstance(x, tuple) and x[0] == "index" and len(x) == 3:
        x = ("call", "index", "", (x[1], x[2]), None)          # built-in slice indexing `s[k]`
    if isinstance(x, tuple) and x[0] == "call" and x[1] in ("index", "get_unchecked", "uget") and len(x[3]) == 2:
        coll, k = x[3][0], strip(x[3][1])
        cb_, ce_ = up(prog, body, coll)
        rb, re_, chain, bad = producer_chain(prog, cb_, ce_, stop_at_field=True)
        if bad is not None:
            return None
        pid = _position_id(prog, body, k)
        if pid is None:
            return None
        re_ = strip(re_)
        if isinstance(re_, tuple) and re_[0] == "field":
            base = strip(re_[1])
            for _ in range(3):
                if isinstance(base, tuple) and base[0] in ("deref", "ref"):
                    base = strip(base[1])
            if isinstance(base, tuple) and base[0] == "upvar":
                pb_, pe_ = up(prog, rb, base)
                re_ = ("field", strip(pe_), re_[2])
                rb = pb_
        return rb, re_, pid
    r = _item_component(prog, body, e)
    if r is None:
        return None
    (rb, re_), it = r
    return rb, strip(re_), ("trav", repr(strip(it)))


def _position_id(prog, body, k):
    """k is the enumerate counter of a traversal, or the item of a range traversal"""
    from . import terms as T
    k = strip(k)
    r = _item_component(prog, body, k, want_pos=True)
    if r is not None:
        return ("trav", repr(strip(r[1])))
    # range item: closure parameter of map/for_each over a Range, or the item of a `for k in a..b` loop
    if isinstance(k, tuple) and k[0] == "param" and body.is_closure and k[1] >= 2:
        site = prog.closure_site(body.key)
        if site is not None:
            parent = site[0]
            for cbb, ct in parent.calls():
                args = parent.call_arg_exprs(cbb)
                if any(isinstance(_strip(a), tuple) and _strip(a)[:3] == ("agg", "closure", body.key) for a in args):
                    src = strip(args[0])
                    for _ in range(3):
                        if isinstance(src, tuple) and src[0] == "call" and src[1] in ("into_iter", "iter") and src[3]:
                            src = strip(src[3][0])
                    if isinstance(src, tuple) and ((src[0] == "agg" and "Range" in str(src[1])) or (src[0] == "call" and src[1] == "new" and "Range" in src[2])):
                        return ("range", body.key)
    if isinstance(k, tuple) and k[0] == "field" and k[2] == "0":
        x = strip(k[1])
        if isinstance(x, tuple) and x[0] == "downcast" and isinstance(strip(x[1]), tuple) and strip(x[1])[0] == "call" and strip(x[1])[1] == "next":
            try:
                tb = prog.tracked(body)
                itr = T.Loop(tb).iterator()
            except Exception:
                itr = None
            if itr is not None:
                src = strip(itr[2])
                for _ in range(3):
                    if isinstance(src, tuple) and src[0] == "call" and src[1] in ("into_iter", "iter") and src[3]:
                        src = strip(src[3][0])
                if isinstance(src, tuple) and ((src[0] == "agg" and "Range" in str(src[1])) or (src[0] == "call" and src[1] == "new" and "Range" in src[2])):
                    return ("range", body.key)
    return None


def item_component_source(prog, body, e):
    r = _item_component(prog, body, e)
    return None if r is None else r[0]


def _item_component(prog, body, e, want_pos=False):
    """an expression that is a component of a closure parameter or of a `for` loop item → (producer body, producer root expr)
    by following the zip structure of the iterator that feeds it; None if it is not such a component"""
    from . import terms as T
    from .rules_layout import producer_chain
    e = strip(e)
    path = []
    x = e
    while isinstance(x, tuple) and x[0] in ("field",) :
        path.append(x[2])
        x = x[1]
    path.reverse()
    it = None
    src_body = body
    if isinstance(x, tuple) and x[0] == "param" and body.is_closure and x[1] >= 2:
        site = prog.closure_site(body.key)
        if site is None:
            return None
        parent, pbb, psi, ups = site
        me = ("agg", "closure", body.key)
        for cbb, ct in parent.calls():
            args = parent.call_arg_exprs(cbb)
            if any(isinstance(_strip(a), tuple) and _strip(a)[:3] == me for a in args):
                it = args[0]
                src_body = parent
    elif isinstance(x, tuple) and x[0] == "downcast" and isinstance(x[1], tuple) and x[1][0] == "call" and x[1][1] == "next":
        # (next(iter) as Some).0.<path>
        if path and path[0] == "0":
            path = path[1:]
        tb = prog.tracked(body)
        try:
            lp = T.Loop(tb)
            itr = lp.iterator()
            if itr is not None:
                it = itr[2]
                src_body = tb
        except T.Unrecognised:
            return None
    if it is None:
        return None
    try:
        struct, prods = T.zip_structure(prog, src_body, it)
    except T.Unrecognised:
        return None
    # navigate
    node = struct
    for p_ in path:
        if isinstance(node, tuple) and p_ in ("0", "1") and int(p_) < len(node):
            node = node[int(p_)]
        else:
            break
    if want_pos:
        return ((None, None), it) if node == "#pos" else None
    if isinstance(node, str) and node.startswith("e"):
        k = int(node[1:])
        if k < len(prods):
            return prods[k], it
    return None


# ------------------------------------------------------------------------------------------- C13

def _edges_site_check(b, bb, si, s):
    """the vector stored into Edges{edges} at this aggregate is only ever mutated by sort (dominating) then dedup (dominating the
    construction): → (ok, detail)"""
    from .rules_select import peel_coercions
    v = strip(b.operand_expr(s["rv"]["fields"][0], bb, si))
    muts = []
    for cbb, t in b.calls():
        for a in b.call_arg_exprs(cbb):
            if isinstance(a, tuple) and a[0] == "ref" and a[2] and peel_coercions(a[1]) == peel_coercions(v):
                if callee_name(t) in ("deref_mut", "as_mut_slice", "as_mut"):
                    continue
                muts.append((cbb, callee_name(t)))
    names = [m[1] for m in muts]
    sorts = [m for m in muts if m[1] in ("sort", "sort_unstable")]
    dedups = [m for m in muts if m[1] == "dedup"]
    others = [m for m in muts if m not in sorts and m not in dedups]
    ok = bool(sorts) and bool(dedups) and not others and b.dominates(sorts[0][0], dedups[0][0]) and b.dominates(dedups[0][0], bb) \
        and v[:2] == ("param", 1)
    detail = "Edges{edges} is built from the input vector after sort (dominating) then dedup, nothing else mutates it: %s" % names if ok else \
        "construction of Edges is not dominated by sort then dedup of the same vector (mutating calls: %s; payload `%s`)" % (names, fmt(v))
    return ok, detail


def edges_establishers(prog):
    """keys of the (non-derive) functions that build an `Edges` value and establish its invariant there: the public From<Vec>
    constructor today; a private constructor shared by the From impls is the same thing one call further down"""
    out = []
    for (b, bb, si) in aggregates_of(prog, "histogram::bins::Edges"):
        if is_derive(b) or b.is_closure:
            continue
        s = b.blocks[bb]["stmts"][si]
        if _edges_site_check(b, bb, si, s)[0] and b.key not in out:
            out.append(b.key)
    return out


def rule_edges_constructor(ctx, prog, rule="R11"):
    FV = "histogram::bins::Edges<A> as std::convert::From<std::vec::Vec<A>>>::from"
    sites = [(b, bb, si) for (b, bb, si) in aggregates_of(prog, "histogram::bins::Edges") if not is_derive(b)]
    est = edges_establishers(prog)
    if not sites:
        ctx.ob(rule, "Edges/from-vec/sorted-deduped", False, "", "anchor missing: no construction of Edges", what="anchor missing")
    for (b, bb, si) in sites:
        ok, detail = _edges_site_check(b, bb, si, b.blocks[bb]["stmts"][si])
        key = "Edges/from-vec/sorted-deduped" if (b.key.endswith(FV) or len(sites) == 1) else "Edges/%s/sorted-deduped" % short(b.key)
        ctx.ob(rule, key, ok, b.where(), detail, what="Edges invariant not established")

    def reaches_establisher(b, depth=0):
        if b.key in est:
            return True
        if depth > 2:
            return False
        r = strip(b.return_expr())
        if isinstance(r, tuple) and r[0] == "call":
            cb = prog.bodies.get(r[2]) or prog.local_callee_body(b.site_term(r[4]))
            if cb is not None and not cb.is_closure:
                return reaches_establisher(cb, depth + 1)
            if r[1] == "from" and "Edges" in (b.site_term(r[4])["callee"].get("path_args") or ""):
                fv = prog.find(FV, required=False)
                return fv is not None and reaches_establisher(fv, depth + 1)
        return False
    for suffix, key in ((FV, "Edges/from-vec/establishes"),
                        ("histogram::bins::Edges<A> as std::convert::From<ndarray::ArrayBase<ndarray::OwnedRepr<A>, ndarray::Dim<[usize; 1]>>>>::from",
                         "Edges/from-array/delegates")):
        b2 = prog.find(suffix, required=False)
        if b2 is None:
            ctx.ob(rule, key, False, "", "anchor missing: %s" % suffix, what="anchor missing")
            continue
        ok2 = reaches_establisher(b2)
        ctx.ob(rule, key, ok2, b2.where(),
               "the conversion hands its vector to the constructor that sorts and deduplicates" if ok2 else
               "the conversion does not end in the sorting / deduplicating constructor: `%s`" % fmt(strip(b2.return_expr()))[:120],
               what="second unsorted constructor")


def rule_bins_len(ctx, prog, rule="R13"):
    b = prog.find("histogram::bins::Bins::<A>::len")
    sw = [bb for bb in b.live_blocks() if b.term(bb)["k"] == "switch"]
    ok = False
    detail = "no switch on the number of edges"
    r0 = strip(b.return_expr()) if not sw else None
    if isinstance(r0, tuple) and r0[0] == "call" and r0[1] == "saturating_sub" and len(r0[3]) == 2:
        n_ = strip(r0[3][0])
        ok = isinstance(n_, tuple) and n_[0] == "call" and n_[1] == "len" and strip(n_[3][0]) == ("field", ("param", 1, "self"), "edges") \
            and strip(r0[3][1]) == ("const", "usize", 1)
        detail = "= edges.len().saturating_sub(1): 0 edges → 0 bins, n edges → n − 1 bins" if ok else "Bins::len is `%s`" % fmt(r0)
    if sw:
        bb = sw[0]
        de = strip(b.switch_discr_expr(bb))
        n_edges = isinstance(de, tuple) and de[0] == "call" and de[1] == "len" and strip(de[3][0]) == ("field", ("param", 1, "self"), "edges")
        r = Routine.__new__(Routine)
        r.prog, r.body = prog, b
        t = b.term(bb)
        res = {}
        for v, tgt in list(t["arms"]) + [("otherwise", t["otherwise"])]:
            vals = []
            for d in r.first_ret_defs(tgt, bb):
                if d in (None, "loop"):
                    vals.append(None)
                else:
                    vals.append(strip(b.def_expr(0, d)))
            res[v] = vals
        from .rules_unsafe import norm_arith
        zero_ok = res.get(0) and all(x == ("const", "usize", 0) for x in res[0])
        oth = res.get("otherwise") or []
        minus1 = oth and all(norm_arith(x) == ("binop", "Sub", de, ("const", "usize", 1)) for x in oth if x is not None) and None not in oth
        ok = bool(n_edges and zero_ok and minus1)
        detail = "0 edges → 0 bins, n edges → n − 1 bins" if ok else \
            "arms are %s (expected 0 → 0, n → n − 1 on the number of edges)" % {k: [fmt(x) if x is not None else None for x in v] for k, v in res.items()}
    ctx.ob(rule, "Bins::len/arms", ok, b.where(), detail, what="number of bins is not max(#edges − 1, 0)")


def rule_lookup_delegation(ctx, prog, rule="R13"):
    """one lookup primitive (binary_search in Edges::indices_of) behind all accessors"""
    # binary_search callers
    n = 0
    for b in prog.bodies.values():
        if not (b.key.startswith("histogram::") or "histogram::" in b.key):
            continue
        for bb, t in b.calls():
            if callee_name(t).startswith("binary_search") or callee_name(t) in ("partition_point", "position", "rposition"):
                n += 1
                ok = b.key.endswith("Edges::<A>::indices_of")
                ctx.ob(rule, "lookup-primitive/%s" % short(b.key), ok, b.where(bb, "term"),
                       "the one binary search over the sorted edges" if ok else
                       "a second hand-written search (`%s`) in %s: accessors may disagree" % (callee_name(t), b.key),
                       what="second lookup implementation")
    ctx.floor(rule, n, 1, "binary_search sites")
    bi = prog.find("histogram::bins::Bins::<A>::index_of")
    r = strip(bi.return_expr())
    ok = False
    if isinstance(r, tuple) and r[0] == "call" and r[1] == "map" and len(r[3]) == 2:
        src = strip(r[3][0])
        clo = strip(r[3][1])
        if isinstance(src, tuple) and src[0] == "call" and src[1] == "indices_of" and \
                strip(src[3][0]) == ("field", ("param", 1, "self"), "edges") and strip(src[3][1])[:2] == ("param", 2) and clo[0] == "agg":
            cr = strip(prog.bodies[clo[2]].return_expr())
            ok = isinstance(cr, tuple) and cr[0] == "field" and cr[2] == "0" and strip(cr[1])[:2] == ("param", 2)
    if not ok:
        # `?` form, private helpers read in place:  let (left, _) = self.edges.indices_of(value)?;  Some(left)
        from .rules_terms import unwrap_try as _ut
        pv = prog.inlined_view() if hasattr(prog, "inlined_view") else prog
        bi2 = pv.tracked(pv.find("histogram::bins::Bins::<A>::index_of"))
        vals = [strip(bi2.def_expr(0, dd)) for dd in bi2.reaching_defs(0, bi2.exits()[0], "term")]
        some_ok, n_some, rest_ok = True, 0, True

        def is_lookup(e):
            e = strip(e)
            return isinstance(e, tuple) and e[0] == "call" and e[1] == "indices_of" and \
                strip(e[3][0]) == ("field", ("param", 1, "self"), "edges") and strip(e[3][1])[:2] == ("param", 2)
        for v in vals:
            if isinstance(v, tuple) and v[0] == "agg" and v[1] == "std::option::Option" and v[2] == "Some":
                n_some += 1
                x = strip(v[3][0])
                some_ok = some_ok and isinstance(x, tuple) and x[0] == "field" and str(x[2]) == "0" and is_lookup(_ut(x[1]))
            elif isinstance(v, tuple) and v[0] == "call" and v[1] == "from_residual":
                inner = strip(v[3][0])
                for _ in range(4):
                    if isinstance(inner, tuple) and inner[0] in ("field", "downcast"):
                        inner = strip(inner[1])
                if isinstance(inner, tuple) and inner[0] == "call" and inner[1] == "branch":
                    inner = strip(inner[3][0])
                rest_ok = rest_ok and is_lookup(inner)
            else:
                rest_ok = False
        ok = n_some == 1 and some_ok and rest_ok
    ctx.ob(rule, "Bins::index_of/delegates", ok, bi.where(), "= self.edges.indices_of(value).map(|t| t.0)" if ok else
           "Bins::index_of is `%s`, not the left index of Edges::indices_of" % fmt(r)[:160], what="accessor does not use the lookup primitive")
    if hasattr(prog, "inlined_view"):
        prog = prog.inlined_view()          # a private `locate` in front of the lookup is read in place
    br = prog.find("histogram::bins::Bins::<A>::range_of")
    ok = False
    detail = "no Range{edges[left], edges[right]} built from Edges::indices_of"
    from .rules_terms import unwrap_try
    grp = [br] + prog.closures_of(br)
    ranges = []
    for g in grp:
        for bb, si, st_ in g.assigns():
            if st_["rv"]["k"] == "agg" and st_["rv"].get("adt") == "std::ops::Range":
                ranges.append((g, bb, si, st_))
    if len(ranges) == 1:
        g, bb, si, st_ = ranges[0]
        fields = [strip(g.operand_expr(f, bb, si)) for f in st_["rv"]["fields"]]

        def edge_index(e):
            """clone(index(self.edges, P.k)) → (k, P)"""
            if isinstance(e, tuple) and e[0] == "call" and e[1] == "clone":
                e = strip(e[3][0])
            if isinstance(e, tuple) and e[0] == "call" and e[1] == "index" and len(e[3]) == 2:
                recv = strip(e[3][0])
                pb, recv0 = up(prog, g, recv) if False else (g, recv)
                i = strip(e[3][1])
                if isinstance(i, tuple) and i[0] == "field" and i[2] in ("0", "1"):
                    return i[2], i[1], recv
            return None
        a, b_ = edge_index(fields[0]), edge_index(fields[1])
        if a and b_ and a[0] == "0" and b_[0] == "1" and a[1] == b_[1]:
            pair = a[1]
            # where does the pair come from?
            src = None
            pp = strip(pair)
            if isinstance(pp, tuple) and pp[0] == "param" and g.is_closure:
                site = prog.closure_site(g.key)
                parent = site[0]
                for cbb, ct in parent.calls():
                    if callee_name(ct) == "map":
                        aa = parent.call_arg_exprs(cbb)
                        if any(strip(x)[:3] == ("agg", "closure", g.key) for x in aa if isinstance(strip(x), tuple)):
                            src = (parent, strip(aa[0]))
            else:
                src = (g, unwrap_try(pair))
            if src is not None:
                sb, se = src
                se = unwrap_try(se)
                okc = isinstance(se, tuple) and se[0] == "call" and se[1] == "indices_of" and \
                    strip(se[3][0]) == ("field", ("param", 1, "self"), "edges") and strip(se[3][1])[:2] == ("param", 2) and not sb.is_closure
                # edges receiver of the two index calls is self.edges (possibly captured)
                def is_edges(r):
                    r = strip(r)
                    if isinstance(r, tuple) and r[0] == "field" and r[2] == "edges":
                        rb, base = up(prog, g, r[1])
                        return strip(base)[:2] == ("param", 1) and not rb.is_closure
                    return False
                ok = okc and is_edges(a[2]) and is_edges(b_[2])
                detail = "Range{edges[left], edges[right]} from the one pair returned by self.edges.indices_of(value)" if ok else \
                    "range built from `%s`" % fmt(se)[:100]
    if not ok:
        # second spelling: self.index_of(value).map(|left| self.index(left)) – the left index (checked above to be the left component
        # of Edges::indices_of) fed to Bins::index, which must be Range{edges[i], edges[i+1]}; the right component of indices_of is
        # left+1 on every Some-path of the decision tree (R20, always run together with this rule)
        r = strip(br.return_expr())
        if isinstance(r, tuple) and r[0] == "call" and r[1] == "map" and len(r[3]) == 2:
            src, clo = strip(r[3][0]), strip(r[3][1])
            if isinstance(src, tuple) and src[0] == "call" and src[2] == bi.key and strip(src[3][0])[:2] == ("param", 1) and \
                    strip(src[3][1])[:2] == ("param", 2) and isinstance(clo, tuple) and clo[:2] == ("agg", "closure"):
                cb = prog.bodies[clo[2]]
                cr = strip(cb.return_expr())
                bidx = prog.find("histogram::bins::Bins::<A>::index")
                if isinstance(cr, tuple) and cr[0] == "call" and cr[2] == bidx.key and len(cr[3]) == 2:
                    rb, recv = up(prog, cb, cr[3][0])
                    recv_ok = strip(recv)[:2] == ("param", 1) and not rb.is_closure
                    arg_ok = strip(cr[3][1])[:2] == ("param", 2)
                    # Bins::index = Range{clone(edges[i]), clone(edges[i+1])}
                    rg = [(bb, si, st_) for bb, si, st_ in bidx.assigns() if st_["rv"]["k"] == "agg" and st_["rv"].get("adt") == "std::ops::Range"]
                    idx_ok = False
                    if len(rg) == 1:
                        bb, si, st_ = rg[0]
                        fs = [strip(bidx.operand_expr(f, bb, si)) for f in st_["rv"]["fields"]]

                        def edge_at(e):
                            if isinstance(e, tuple) and e[0] == "call" and e[1] == "clone":
                                e = strip(e[3][0])
                            if isinstance(e, tuple) and e[0] == "call" and e[1] == "index" and len(e[3]) == 2 and \
                                    strip(e[3][0]) == ("field", ("param", 1, "self"), "edges"):
                                return strip(e[3][1])
                            return None
                        i0, i1 = edge_at(fs[0]), edge_at(fs[1])

                        def plus_one(e):
                            if isinstance(e, tuple) and e[0] == "field" and e[2] == "0":
                                e = strip(e[1])
                            return isinstance(e, tuple) and e[0] == "binop" and e[1] in ("Add", "AddWithOverflow", "AddUnchecked") and \
                                strip(e[2])[:2] == ("param", 2) and strip(e[3]) == ("const", "usize", 1)
                        idx_ok = i0 is not None and i0[:2] == ("param", 2) and i1 is not None and plus_one(i1)
                    ok = recv_ok and arg_ok and idx_ok
                    detail = "= self.index_of(value).map(|left| self.index(left)) with Bins::index(i) = Range{edges[i], edges[i+1]} and right = left+1 (R20)" if ok else \
                        "range_of via index_of/index: receiver is self=%s, argument is the left index=%s, Bins::index is Range{edges[i], edges[i+1]}=%s" % (recv_ok, arg_ok, idx_ok)
    own_defs = [d for d in br.reaching_defs(0, br.exits()[0], "term")
                if not (isinstance(strip(br.def_expr(0, d)), tuple) and strip(br.def_expr(0, d))[0] == "call" and strip(br.def_expr(0, d))[1] == "from_residual")]
    if ok and len(own_defs) != 1:      # a `?` that hands the lookup's own None on is not a second way of producing a result
        ok, detail = False, "Bins::range_of has a second way of producing its result besides the mapped lookup"
    ctx.ob(rule, "Bins::range_of/delegates", ok, br.where(), detail, what="accessor does not use the lookup primitive")
    gs = prog.find("histogram::grid::Grid::<A>::shape")
    r = strip(gs.return_expr())
    ok = False
    from .rules_layout import producer_chain
    from .rules_result import returned_locals
    om = ordered_map(prog, gs)
    if om is not None:
        rb, re_, chain, bad = producer_chain(prog, prog.tracked(gs), om["source"], stop_at_field=True)
        if om["fn"]:
            per = om["fn"].endswith("Bins::<A>::len")
        else:
            v = om["value"]
            want_item = ("param", 2) if om["form"] == "collect" else om["item"]
            per = isinstance(v, tuple) and v[0] == "call" and v[1] == "len" and "Bins" in v[2] and \
                (strip(v[3][0])[:2] == want_item[:2] if om["form"] == "collect" else strip(v[3][0]) == want_item)
        if om["form"] == "collect" and om.get("vec") is None:
            returned = isinstance(r, tuple) and r[0] == "call" and r[1] == "collect"
        else:
            rl = [L for _d, L in returned_locals(prog.tracked(gs))]
            returned = len(rl) == 1 and rl[0] == om.get("vec")
        ok = bad is None and per and returned and strip(re_) == ("field", ("param", 1, "self"), "projections")
    ctx.ob(rule, "Grid::shape/delegates", ok, gs.where(), "= projections.iter().map(Bins::len).collect()" if ok else
           "Grid::shape is `%s`" % fmt(r)[:160], what="grid shape not the per-axis bin counts in order")
    # Bins::index(i) is the range between the consecutive edges i and i+1
    bidx = prog.find("histogram::bins::Bins::<A>::index")
    rg = [(bb, si, st_) for bb, si, st_ in bidx.assigns() if st_["rv"]["k"] == "agg" and st_["rv"].get("adt") == "std::ops::Range"]
    oki, idetail = False, "no single Range{..} construction"
    if len(rg) == 1:
        bb, si, st_ = rg[0]
        names_ = st_["rv"].get("field_names") or ["start", "end"]
        fs = dict(zip(names_, [strip(bidx.operand_expr(f, bb, si)) for f in st_["rv"]["fields"]]))

        def edge_at_(e):
            if isinstance(e, tuple) and e[0] == "call" and e[1] == "clone":
                e = strip(e[3][0])
            if isinstance(e, tuple) and e[0] == "call" and e[1] == "index" and len(e[3]) == 2 and \
                    strip(e[3][0]) == ("field", ("param", 1, "self"), "edges"):
                return strip(e[3][1])
            return None

        def plus_one_(e):
            if isinstance(e, tuple) and e[0] == "field" and e[2] == "0":
                e = strip(e[1])
            return isinstance(e, tuple) and e[0] == "binop" and e[1] in ("Add", "AddWithOverflow", "AddUnchecked") and \
                strip(e[2])[:2] == ("param", 2) and strip(e[3]) == ("const", "usize", 1)
        i0, i1 = edge_at_(fs.get("start")), edge_at_(fs.get("end"))
        oki = i0 is not None and i0[:2] == ("param", 2) and i1 is not None and plus_one_(i1)
        idetail = "Range{start: edges[i], end: edges[i+1]}" if oki else "Bins::index builds Range{start: %s, end: %s}" % (fmt(fs.get("start"))[:50], fmt(fs.get("end"))[:50])
    ctx.ob(rule, "Bins::index/consecutive-edges", oki, bidx.where(), idetail, what="by-position accessor does not return the i-th bin")
    # Bins::is_empty agrees with Bins::len
    be = prog.find("histogram::bins::Bins::<A>::is_empty", required=False)
    if be is not None:
        r = strip(be.return_expr())
        oke = isinstance(r, tuple) and r[0] == "binop" and r[1] == "Eq" and strip(r[3]) == ("const", "usize", 0) and \
            isinstance(strip(r[2]), tuple) and strip(r[2])[0] == "call" and strip(r[2])[1] == "len" and strip(strip(r[2])[3][0])[:2] == ("param", 1)
        if not oke:
            # any other spelling: evaluated for every edge count n ≤ 8 against  (number of bins = max(n − 1, 0)) == 0
            from .paths import evaluate, CannotEval

            def _sym(e_):
                if isinstance(e_, tuple) and e_[0] == "call" and e_[1] == "len" and e_[3]:
                    r_ = strip(e_[3][0])
                    if r_ == ("field", ("param", 1, "self"), "edges"):
                        return "n"
                    if r_[:2] == ("param", 1) and "Bins" in str(e_[2]):
                        return "bl"
                if isinstance(e_, tuple) and e_[0] == "call" and e_[1] == "is_empty" and e_[3] and strip(e_[3][0]) == ("field", ("param", 1, "self"), "edges"):
                    return "ne"
                return None
            try:
                oke = all(bool(evaluate(r, {"n": n_, "bl": max(n_ - 1, 0), "ne": n_ == 0}, _sym, prog)) == (max(n_ - 1, 0) == 0) for n_ in range(0, 9))
            except (CannotEval, Exception):
                oke = False
        ctx.ob(rule, "Bins::is_empty/agrees-with-len", oke, be.where(), "true exactly when the number of bins max(#edges − 1, 0) is zero" if oke else "Bins::is_empty is `%s`" % fmt(r)[:100],
               what="is_empty disagrees with len")
    # Grid::ndim is the number of projections (it is the arity every point / index is compared with)
    gn = prog.find("histogram::grid::Grid::<A>::ndim")
    r = strip(gn.return_expr())
    for _ in range(3):
        if isinstance(r, tuple) and r[0] == "call" and r[1] in ("deref", "as_slice") and r[3]:
            r = strip(r[3][0])
    ok = isinstance(r, tuple) and r[0] == "call" and r[1] == "len" and len(r[3]) == 1
    if ok:
        recv = strip(r[3][0])
        for _ in range(3):
            if isinstance(recv, tuple) and recv[0] == "call" and recv[1] in ("deref", "as_slice", "projections") and recv[3]:
                recv = strip(recv[3][0])
        ok = recv == ("field", ("param", 1, "self"), "projections") or recv[:2] == ("param", 1)
    ctx.ob(rule, "Grid::ndim/is-projection-count", ok, gn.where(), "= self.projections.len()" if ok else "Grid::ndim is `%s`" % fmt(r)[:120],
           what="grid arity is not the number of projections")


# ------------------------------------------------------------------------------------------- C11

def rule_r16(ctx, prog, rule="R16"):
    from .paths import enumerate_paths, NotLoopFree
    from .rules_terms import unwrap_try
    from .rules_unsafe import norm_arith
    b = prog.find("histogram::histograms::Histogram::<A>::add_observation")
    from .facts import forward_result_local, inline_calls
    # private accessors of Histogram (`count_mut(&mut self, idx) -> &mut usize`) are read in place
    b = inline_calls(prog, b, lambda cb_: cb_.key not in prog.exported and not cb_.is_closure and "histograms::Histogram" in cb_.key
                     and len(cb_.blocks) <= 20 and not cb_.raw.get("unsafe_fn"))
    b = forward_result_local(prog, b)          # `let mut outcome = Err(..); ..; outcome = Ok(()); outcome` is the return place by another name
    # the lookup: exactly one self.grid.index_of(observation)
    looks = [(bb, t) for bb, t in b.calls() if callee_name(t) == "index_of"]
    ok = len(looks) == 1
    look = None
    if ok:
        look = strip(b.call_expr(looks[0][0]))
        ok = strip(look[3][0]) == ("field", ("param", 1, "self"), "grid") and strip(look[3][1])[:2] == ("param", 2)
    ctx.ob(rule, "add_observation/lookup", ok, b.where(),
           "one lookup self.grid.index_of(observation)" if ok else "the bin is not looked up with self.grid.index_of(observation) exactly once",
           what="bin lookup missing")
    if not ok:
        return
    # increments: stores through counts.index_mut(idx) whose value is old + 1 and whose idx is the payload of the lookup
    incs = {}
    other_writes = []
    for (sbb, si, d) in b.stores():
        base = strip(b.local_expr(d["l"], sbb, si))
        if isinstance(base, tuple) and base[0] == "call" and base[1] == "index_mut":
            recv = strip(base[3][0])
            idx = strip(base[3][1])
            def peel(ix):
                for _ in range(8):
                    if isinstance(ix, tuple) and ix[0] == "call" and ix[1] in ("deref", "as_slice", "as_ref", "borrow", "IxDyn", "into_dimension") \
                            and len(ix[3]) == 1:      # IxDyn(&v) / v.into_dimension(): the same index as a dynamic dimension
                        ix = strip(ix[3][0])
                    elif isinstance(ix, tuple) and ix[0] == "call" and ix[1] == "index" and len(ix[3]) == 2 and \
                            isinstance(strip(ix[3][1]), tuple) and strip(ix[3][1])[0] == "agg" and strip(ix[3][1])[1] == "std::ops::RangeFull":
                        ix = strip(ix[3][0])      # `&v[..]`: the whole index vector
                    else:
                        break
                return ix
            idx = peel(unwrap_try(peel(idx)))
            if isinstance(idx, tuple) and idx[0] == "call" and idx[1] == "ok_or" and idx[3]:
                idx = strip(idx[3][0])
            st_ = b.blocks[sbb]["stmts"][si]
            nv = norm_arith(strip(b.rvalue_expr(st_["rv"], sbb, si)))
            inc_ok = isinstance(nv, tuple) and nv[0] == "binop" and nv[1] == "Add" and (
                (strip(nv[3]) == ("const", "usize", 1) and strip(nv[2]) == base) or (strip(nv[2]) == ("const", "usize", 1) and strip(nv[3]) == base))
            incs[sbb] = dict(idx_ok=(idx == look), recv_ok=(recv == ("field", ("param", 1, "self"), "counts")), inc_ok=inc_ok)
        else:
            other_writes.append((sbb, fmt(base)))
    ctx.ob(rule, "add_observation/no-other-write", not other_writes, b.where(),
           "no store other than the count increment" if not other_writes else "other stores: %s" % other_writes, what="unexpected write")
    try:
        paths = enumerate_paths(b)
    except NotLoopFree as ex:
        ctx.ob(rule, "add_observation/paths", False, b.where(), "anchor not recognised: %s" % ex, what="anchor not recognised")
        return
    ok_found = ok_reject = True
    n_found = n_reject = 0
    details = []
    for pi in paths:
        blks = list(pi.blocks)
        here = [bb for bb in blks if bb in incs]
        rd = pi[1]
        rv = strip(b.def_expr(0, rd)) if rd is not None else None
        is_ok = isinstance(rv, tuple) and rv[0] == "agg" and rv[2] == "Ok"
        if is_ok:
            n_found += 1
            good = len(here) == 1 and all(incs[here[0]].values())
            if not good:
                ok_found = False
                details.append("a success path performs %d increments %s" % (len(here), [incs[h] for h in here]))
        else:
            n_reject += 1
            # error path: BinNotFound (directly or through `?`), no increment, no call that could write
            calls = [callee_name(b.term(bb)) for bb in blks if b.term(bb)["k"] == "call"]
            benign = {"index_of", "ok_or", "branch", "from_residual", "deref", "from", "into"}
            errv = None
            if isinstance(rv, tuple) and rv[0] == "agg" and rv[2] == "Err":
                errv = strip(rv[3][0])
            elif isinstance(rv, tuple) and rv[0] == "call" and rv[1] == "from_residual":
                for x in walk(rv):
                    if isinstance(x, tuple) and x[0] == "agg" and x[1].endswith("BinNotFound"):
                        errv = x
            bnf = isinstance(errv, tuple) and errv[0] == "agg" and errv[1].endswith("BinNotFound")
            if here or not bnf or any(c not in benign for c in calls):
                ok_reject = False
                details.append("reject path: increments=%d error=%s calls=%s" % (len(here), fmt(errv) if errv else rv and fmt(rv)[:60], calls))
    ctx.ob(rule, "add_observation/increment", ok_found and n_found >= 1, b.where(),
           "on every success path counts[bin_index] += 1 happens exactly once, with the index returned by the lookup (%d path(s))" % n_found
           if ok_found and n_found >= 1 else "; ".join(details) or "no success path", what="count not incremented exactly once by one")
    ctx.ob(rule, "add_observation/reject-changes-nothing", ok_reject and n_reject >= 1, b.where(),
           "every other path returns BinNotFound without any write or call that could write (%d path(s))" % n_reject
           if ok_reject and n_reject >= 1 else "; ".join(details) or "no reject path", what="rejected observation changes state")
    # Histogram::new
    nb = prog.find("histogram::histograms::Histogram::<A>::new")
    r = strip(nb.return_expr())
    ok = isinstance(r, tuple) and r[0] == "agg" and r[1].endswith("Histogram") and len(r[3]) == 2
    if ok:
        names = r[4]
        vals = dict(zip(names, r[3]))
        c = strip(vals.get("counts"))
        g = strip(vals.get("grid"))
        zero_fill = isinstance(c, tuple) and c[0] == "call" and (c[1] == "zeros" or (c[1] in ("from_elem", "from_elem_dyn") and len(c[3]) == 2 and
                                                                              strip(c[3][1]) == ("const", "usize", 0)))
        shp = strip(c[3][0]) if zero_fill else None
        for _ in range(6):
            if isinstance(shp, tuple) and shp[0] == "call" and shp[1] in ("IxDyn", "deref", "as_slice", "as_ref", "into_dimension", "clone") and len(shp[3]) == 1:
                shp = strip(shp[3][0])
        ok = zero_fill and isinstance(shp, tuple) and shp[0] == "call" and shp[1] == "shape" and "Grid" in shp[2] \
            and strip(shp[3][0]) == g and g[:2] == ("param", 1)
    ctx.ob(rule, "Histogram::new/counts-shape", ok, nb.where(), "counts = zeros(grid.shape()) of the grid that is stored" if ok else
           "Histogram::new builds `%s`" % fmt(r)[:200], what="counts array does not have the grid's shape")
    # HistogramExt::histogram: one add_observation per row, result ignored, no early exit
    hb = prog.method("HistogramExt", "histogram")
    adds = [(cbb, ct) for cbb, ct in hb.calls() if callee_name(ct) == "add_observation"]
    ok = len(adds) == 1
    detail = "%d add_observation site(s)" % len(adds)
    if ok:
        cbb, ct = adds[0]
        a = hb.call_arg_exprs(cbb)
        h = strip(a[0])
        item = strip(a[1])
        newh = isinstance(h, tuple) and h[0] == "call" and h[1] == "new" and strip(h[3][0])[:2] == ("param", 2)
        it_ok = isinstance(item, tuple) and item[0] == "field" and item[2] == "0" and strip(item[1])[0] == "downcast"
        nxt = strip(strip(item[1])[1]) if it_ok else None
        from .rules_layout import producer_chain, axis_const
        rows = False
        if it_ok and isinstance(nxt, tuple) and nxt[0] == "call" and nxt[1] == "next":
            rb, re_, chain, bad = producer_chain(prog, hb, nxt[3][0])
            rows = bad is None and strip(re_) == ("param", 1, "self") and ("axis_iter" in chain or "outer_iter" in chain)
        # result unused: no switch on it, and the loop's only exit is next() == None
        me = hb.call_expr(cbb)
        used = any(any(x == me for x in walk(hb.switch_discr_expr(s))) for s in hb.live_blocks() if hb.term(s)["k"] == "switch")
        ret = strip(hb.return_expr())
        ok = newh and rows and not used and ret == h
        detail = "one add_observation per item of axis_iter(self, ..) on Histogram::new(grid); result ignored; histogram returned" if ok else \
            "new(grid)=%s rows-of-self=%s result-used=%s returns-histogram=%s" % (newh, rows, used, ret == h)
    if not adds:
        # closure form: self.axis_iter(Axis(0)).for_each(|row| { let _ = histogram.add_observation(&row); })
        from .rules_layout import producer_chain, up
        for c in prog.closures_of(hb):
            cadds = [(cbb, ct) for cbb, ct in c.calls() if callee_name(ct) == "add_observation"]
            if len(cadds) != 1:
                continue
            cbb, ct = cadds[0]
            a = c.call_arg_exprs(cbb)
            hb_, he_ = up(prog, c, a[0])
            h = strip(he_)
            newh = hb_ is hb and isinstance(h, tuple) and h[0] == "call" and h[1] == "new" and strip(h[3][0])[:2] == ("param", 2)
            item_ok = strip(a[1])[:2] == ("param", 2)
            rows = False
            total = False
            for pbb, pt in hb.calls():
                pargs = hb.call_arg_exprs(pbb)
                if any(isinstance(strip(x), tuple) and strip(x)[:3] == ("agg", "closure", c.key) for x in pargs[1:]):
                    total = callee_name(pt) == "for_each"          # try_for_each / any / all / find stop early
                    rb, re_, chain, bad = producer_chain(prog, hb, pargs[0])
                    rows = bad is None and strip(re_) == ("param", 1, "self") and ("axis_iter" in chain or "outer_iter" in chain)
            me = c.call_expr(cbb)
            used = any(any(x == me for x in walk(c.switch_discr_expr(s_))) for s_ in c.live_blocks() if c.term(s_)["k"] == "switch")
            unit_ret = c.local_ty(0).startswith("()")
            ret = strip(hb.return_expr())
            ok = newh and item_ok and rows and total and not used and unit_ret and ret == h
            detail = "one add_observation per row through for_each over axis_iter(self, ..) on Histogram::new(grid); result ignored; histogram returned" if ok else \
                "closure form: new(grid)=%s row=item:%s rows-of-self=%s visits-every-row=%s result-used=%s returns-histogram=%s" % (newh, item_ok, rows, total, used, ret == h)
    ctx.ob(rule, "histogram/one-insert-per-row", ok, hb.where(), detail, what="matrix form does not insert each row once")
    # the accessor shows the stored counts as they are (a reversed / transposed / sliced view would move every count)
    cb_ = prog.find("histogram::histograms::Histogram::<A>::counts")
    r = strip(cb_.return_expr())
    okc = isinstance(r, tuple) and r[0] == "call" and r[1] in ("view", "clone", "to_owned") and len(r[3]) == 1 and \
        strip(r[3][0]) == ("field", ("param", 1, "self"), "counts")
    ctx.ob(rule, "Histogram::counts/plain-view", okc, cb_.where(), "= self.counts.view()" if okc else "Histogram::counts is `%s`" % fmt(r)[:120],
           what="count accessor does not show the stored counts at their own indices")


def rule_grid_index_of(ctx, prog, rule="R9"):
    _grid_per_axis(ctx, prog, "index_of", rule)
    _grid_per_axis(ctx, prog, "index", rule)
    g = prog.find("histogram::grid::Grid::<A>::index_of")
    from .facts import inline_calls
    from .rules_zones import helper_filter
    g = inline_calls(prog, g, helper_filter(prog))          # the assertion may sit in a private helper
    # arity assert: every returning path passes the diverging comparison `point.len() == self.ndim()`
    arity = False
    for bb in g.live_blocks():
        t = g.term(bb)
        if t["k"] == "switch":
            de = strip(g.switch_discr_expr(bb))
            if isinstance(de, tuple) and de[0] == "binop" and de[1] == "Eq":
                sides = [strip(de[2]), strip(de[3])]

                def counts(e_, what):
                    for _ in range(3):
                        if isinstance(e_, tuple) and e_[0] in ("deref", "ref"):
                            e_ = strip(e_[1])
                    if not (isinstance(e_, tuple) and e_[0] == "call" and e_[3]):
                        return False
                    r_ = strip(e_[3][0])
                    for _ in range(3):
                        if isinstance(r_, tuple) and r_[0] == "call" and r_[1] in ("deref", "view", "projections") and r_[3]:
                            r_ = strip(r_[3][0])
                        elif isinstance(r_, tuple) and r_[0] == "field":
                            r_ = strip(r_[1])
                    return e_[1] in what and isinstance(r_, tuple) and r_[0] == "param"
                f = [tgt for v, tgt in t["arms"] if v == 0]
                if f and not g.can_reach_return(f[0]) and not g.can_reach_return(0, avoid=(bb,)) and \
                        any(counts(x_, ("len", "len_of")) for x_ in sides) and any(counts(x_, ("ndim", "len")) for x_ in sides):
                    arity = True
    ctx.ob(rule, "Grid::index_of/arity-assert", arity, g.where(), "point.len() == ndim() asserted before pairing" if arity else
           "no arity assertion dominates the pairing: a short point is silently truncated", what="arity not checked")


def _grid_per_axis(ctx, prog, meth, rule):
    """Grid::index_of / Grid::index apply Bins::<meth> of projection j to coordinate j and keep the results in axis order"""
    g = prog.find("histogram::grid::Grid::<A>::%s" % meth)
    grp = [g] + prog.closures_of(g)
    calls = [(b, bb, t) for b in grp for bb, t in b.calls()
             if callee_name(t) == meth and "Bins" in (t["callee"].get("path") or "")]
    ok = False
    detail = "%d calls to Bins::%s" % (len(calls), meth)
    if len(calls) == 1:
        b, bb, t = calls[0]
        a = b.call_arg_exprs(bb)
        rs = position_source(prog, b, a[0])
        vs = position_source(prog, b, a[1])
        if rs is not None and vs is not None and rs[2] != vs[2]:
            detail = "the bins and the coordinate handed to Bins::%s are not taken at the same position of one traversal" % meth
            rs = vs = None
        if rs is not None and vs is not None:
            # same position of (a) one zip / enumerate traversal or (b) one index variable ranging over 0..n
            recv_ok = strip(rs[1]) == ("field", ("param", 1, "self"), "projections") and not rs[0].is_closure
            val_ok = strip(vs[1])[:2] == ("param", 2) and not vs[0].is_closure
            # results kept in order: collect(map(..)) returned, or a single push per item into the returned vector
            r = strip(g.return_expr())
            in_order = False
            if isinstance(r, tuple) and r[0] == "call" and r[1] == "collect":
                # … through adaptors that keep the order (no rev / skip / filter between the pairing and the collect)
                from .rules_layout import producer_chain
                _rb, _re, chain, bad = producer_chain(prog, g, r[3][0])
                in_order = bad is None
                if bad is not None:
                    detail = "the per-axis results pass through `%s` before they are collected" % bad.lstrip("?")
            else:
                tg = prog.tracked(g)
                pushes = [pb for pb, pt in tg.calls() if callee_name(pt) == "push"]
                in_order = len(pushes) == 1
                if not pushes:
                    # an empty vector extended once by the mapped pairing, then returned
                    om_ = ordered_map(prog, g)
                    if om_ is not None and om_.get("vec") is not None and om_["form"] == "collect":
                        from .rules_layout import producer_chain
                        from .rules_result import returned_locals
                        _rb, _re, chain, bad = producer_chain(prog, tg, om_["source"])
                        rl_ = [L for _d, L in returned_locals(tg)]
                        in_order = bad is None and rl_ == [om_["vec"]]
            ok = recv_ok and val_ok and in_order
            detail = "coordinate j goes to projection j (Bins::%s(bins_j, v_j) on the components of one undisturbed zip), results kept in axis order" % meth if ok else \
                ("receiver from projections=%s value from the argument=%s in-order=%s" % (recv_ok, val_ok, in_order) if in_order or not (recv_ok and val_ok) else detail)
        elif not detail.startswith("the bins and"):
            detail = "the operands of Bins::%s are not components of one zip item" % meth
    ctx.ob(rule, "Grid::%s/coordinate-axis-pairing" % meth, ok, g.where(), detail, what="coordinate j not paired with axis j")


# ------------------------------------------------------------------------------------------- R20 lookup decision tree

def rule_indices_of_tree(ctx, prog, rule="R20"):
    """The decision tree of Edges::indices_of, extracted path by path from MIR, equals the specification table
       Ok(i): i == n−1 → None, else (i, i+1);  Err(j): j == 0 or j == n → None, else (j−1, j)
    for every (variant, index, n) with n ≤ 8 — complete for conditions that compare the index with 0, n, n−1.
    Together with std's binary_search contract on strictly increasing edges (R11) this is `edge_i <= v < edge_{i+1}`."""
    from .paths import enumerate_paths, evaluate, CannotEval, NotLoopFree, resolve_phi
    b = prog.find("histogram::bins::Edges::<A>::indices_of")
    from .facts import inline_calls
    from .rules_zones import helper_filter
    b = inline_calls(prog, b, helper_filter(prog))       # the decision may live in a private helper taking the search result
    bs = [(bb, t) for bb, t in b.calls() if callee_name(t) == "binary_search"]
    pps = [(bb, t) for bb, t in b.calls() if callee_name(t) == "partition_point"]
    ok = len(bs) == 1 and not pps
    pp_kind = None
    if ok:
        a = [strip(x) for x in b.call_arg_exprs(bs[0][0])]
        recv = a[0]
        while isinstance(recv, tuple) and recv[0] == "call" and recv[1] in ("deref", "as_slice") and recv[3]:
            recv = recv[3][0]
        ok = recv == ("field", ("param", 1, "self"), "edges") and a[1][:2] == ("param", 2)
    elif len(pps) == 1 and not bs:
        # the other std search primitive: partition_point(|e| e <= value) is the number of edges ≤ value (on strictly increasing
        # edges: i+1 after an exact hit on edge i, j for a probe strictly between edges j−1 and j); with `<` the number of edges < value
        a = [strip(x) for x in b.call_arg_exprs(pps[0][0])]
        recv = a[0]
        while isinstance(recv, tuple) and recv[0] == "call" and recv[1] in ("deref", "as_slice") and recv[3]:
            recv = recv[3][0]
        if recv == ("field", ("param", 1, "self"), "edges") and isinstance(a[1], tuple) and a[1][:2] == ("agg", "closure") and a[1][2] in prog.bodies:
            cb_ = prog.bodies[a[1][2]]
            r_ = strip(cb_.return_expr())
            flip_ = {"le": "ge", "lt": "gt", "ge": "le", "gt": "lt", "Le": "ge", "Lt": "gt", "Ge": "le", "Gt": "lt"}
            if isinstance(r_, tuple) and ((r_[0] == "call" and r_[1] in ("le", "lt", "ge", "gt") and len(r_[3]) == 2) or
                                          (r_[0] == "binop" and r_[1] in ("Le", "Lt", "Ge", "Gt"))):
                opn = r_[1].lower()
                x_, y_ = (r_[3][0], r_[3][1]) if r_[0] == "call" else (r_[2], r_[3])
                for _ in range(3):
                    x_ = strip(x_[1]) if isinstance(x_, tuple) and x_[0] in ("ref", "deref") else strip(x_)
                    y_ = strip(y_[1]) if isinstance(y_, tuple) and y_[0] in ("ref", "deref") else strip(y_)
                _pb, y_up = up(prog, cb_, y_)
                _pb2, x_up = up(prog, cb_, x_)
                if x_[:2] == ("param", 2) and strip(y_up)[:2] == ("param", 2) and y_[0] == "upvar":
                    pp_kind = opn if opn in ("le", "lt") else None
                elif y_[:2] == ("param", 2) and strip(x_up)[:2] == ("param", 2) and x_[0] == "upvar":
                    pp_kind = flip_[opn] if flip_[opn] in ("le", "lt") else None
        ok = pp_kind is not None
    ctx.ob(rule, "indices_of/search-operands", ok, b.where(), ("binary_search(self.edges, value)" if pp_kind is None else
           "partition_point(self.edges, |e| e %s value)" % ("<=" if pp_kind == "le" else "<")) if ok else
           "the search is not binary_search (or partition_point by comparison with the probe) of the probe value over self.edges",
           what="lookup searches the wrong thing")
    if not ok:
        return
    bse = strip(b.call_expr((bs or pps)[0][0]))
    # Edges::len really is the number of edges
    lb = prog.find("histogram::bins::Edges::<A>::len")
    lr = strip(lb.return_expr())
    len_ok = isinstance(lr, tuple) and lr[0] == "call" and lr[1] == "len" and strip(lr[3][0]) == ("field", ("param", 1, "self"), "edges")
    ctx.ob(rule, "Edges::len/is-edge-count", len_ok, lb.where(), "= self.edges.len()" if len_ok else "Edges::len is `%s`" % fmt(lr),
           what="edge count wrong")

    # the other read accessors of Edges show the stored vector itself (every element, stored order): a chain of identity views
    VIEWS = {"iter": ("iter", "deref", "as_slice", "as_ref", "into_iter", "as_array_view"),
             "as_array_view": ("from", "into", "aview1", "view", "deref", "as_slice", "as_ref"),
             "is_empty": ("is_empty", "deref", "as_slice", "as_ref")}
    for acc, allowed in sorted(VIEWS.items()):
        ab = prog.find("histogram::bins::Edges::<A>::%s" % acc, required=False)
        if ab is None:
            continue
        r = strip(ab.return_expr())
        r0 = r
        chain = []
        for _ in range(8):
            if isinstance(r, tuple) and r[0] == "call" and r[3] and len(r[3]) == 1 and r[1] in allowed:
                chain.append(r[1])
                r = strip(r[3][0])
            elif isinstance(r, tuple) and r[0] in ("ref", "deref"):
                r = strip(r[1])
            else:
                break
        okv = (r == ("field", ("param", 1, "self"), "edges") or (r[:2] == ("param", 1) and "as_array_view" in chain)) \
            and (acc != "is_empty" or "is_empty" in chain)
        if not okv and acc == "is_empty":
            # `self.len() == 0`
            okv = isinstance(r0, tuple) and r0[0] == "binop" and r0[1] == "Eq" and strip(r0[3]) == ("const", "usize", 0) and \
                isinstance(strip(r0[2]), tuple) and strip(r0[2])[0] == "call" and strip(r0[2])[1] == "len"
        ctx.ob(rule, "Edges::%s/plain-view" % acc, okv, ab.where(), "= %s of self.edges, nothing skipped or reordered" % "·".join(chain) if okv else
               "Edges::%s is `%s`, not a plain view of the stored edges" % (acc, fmt(r0)[:120]), what="accessor hides or reorders edges")

    def sym(e):
        if pp_kind is not None and e == bse:
            return "pp"
        if isinstance(e, tuple) and e[0] == "discr" and e[1] == bse:
            return "variant"
        if isinstance(e, tuple) and e[0] == "field" and e[2] == "0" and isinstance(e[1], tuple) and e[1][0] == "downcast" and e[1][1] == bse:
            return "idx_" + e[1][2]
        if isinstance(e, tuple) and e[0] == "call" and e[1] == "len" and e[3]:
            r = e[3][0]
            if r == ("param", 1, "self") or r == ("field", ("param", 1, "self"), "edges"):
                return "n"
        return None

    try:
        paths = enumerate_paths(b)
    except NotLoopFree as ex:
        ctx.ob(rule, "indices_of/tree", False, b.where(), "anchor not recognised: %s" % ex, what="anchor not recognised")
        return

    def spec(variant, i, n):
        if variant == 0:
            return None if i == n - 1 else ("Some", (i, i + 1))
        return None if (i == 0 or i == n) else ("Some", (i - 1, i))

    cases = 0
    bad = []
    unrec = None
    for n in range(0, 9):
        for variant in (0, 1):
            rng = range(0, n) if variant == 0 else range(0, n + 1)
            for i in rng:
                env = {"variant": variant, "n": n, ("idx_Ok" if variant == 0 else "idx_Err"): i}
                if pp_kind is not None:
                    env = {"n": n, "pp": (i + 1 if (variant == 0 and pp_kind == "le") else i)}
                taken = []
                for pinfo in paths:
                    decisions, rd, asserts = pinfo
                    feasible = True
                    try:
                        for (_bb, de, val) in decisions:
                            v = evaluate(resolve_phi(b, de, pinfo.blocks), env, sym, prog)
                            if isinstance(val, tuple) and val[0] == "not":
                                if v in val[1]:
                                    feasible = False
                                    break
                            elif v != val:
                                feasible = False
                                break
                    except CannotEval as ex:
                        # a condition on the other variant's index is infeasible for this variant
                        if "unbound" in str(ex):
                            feasible = False
                        else:
                            unrec = str(ex)
                            feasible = False
                    if feasible:
                        taken.append((decisions, rd, asserts, pinfo.blocks))
                cases += 1
                if len(taken) != 1:
                    bad.append("variant=%s idx=%d n=%d: %d feasible paths" % ("Ok" if variant == 0 else "Err", i, n, len(taken)))
                    continue
                decisions, rd, asserts, pblocks = taken[0]
                try:
                    for (_bb, ce, expected) in asserts:
                        if bool(evaluate(resolve_phi(b, ce, pblocks), env, sym, prog)) != bool(expected):
                            bad.append("variant=%s idx=%d n=%d: arithmetic assert fails on the taken path" % ("Ok" if variant == 0 else "Err", i, n))
                    got = evaluate(resolve_phi(b, b.def_expr(0, rd), pblocks), env, sym, prog)
                except CannotEval as ex:
                    unrec = str(ex)
                    continue
                if got != spec(variant, i, n):
                    bad.append("%s(%d) with %d edges → %s, specification %s" % ("Ok" if variant == 0 else "Err", i, n, got, spec(variant, i, n)))
    if unrec:
        ctx.ob(rule, "indices_of/tree", False, b.where(), "anchor not recognised: cannot interpret `%s` in the lookup's decision tree" % unrec,
               what="anchor not recognised")
        return
    ctx.extras["R20_cases"] = cases
    ctx.extras["R20_paths"] = len(paths)
    ctx.ob(rule, "indices_of/tree", not bad, b.where(),
           "%d paths; decision tree equals the left-closed/right-open table on all %d (variant, index, n≤8) cases" % (len(paths), cases) if not bad else
           "decision tree differs from the left-closed/right-open specification: " + "; ".join(bad[:4]),
           what="bin lookup is not left-closed/right-open")



def ordered_map(prog, body):
    """a vector produced as `value(item)` for the items of one traversal, in traversal order – spelled either as
    `iter.map(f).collect()` or as a `for` loop with a single `push` into a vector nothing else mutates.
    → dict(form, source=iterator expression, value=deep-stripped pushed/returned expression, item=item expression or None,
           vbody=body in which `value` lives) or None"""
    from . import terms as T_
    from .rules_terms import closure_of
    from .rules_result import mutation_sites
    tb = prog.tracked(body)
    for bb, t in tb.calls():
        if callee_name(t) == "collect":
            m = strip(tb.call_arg_exprs(bb)[0])
            if isinstance(m, tuple) and m[0] == "call" and m[1] == "map" and len(m[3]) == 2:
                cb, _ups = closure_of(prog, m[3][1])
                f = strip(m[3][1])
                if cb is not None:
                    return dict(form="collect", source=m[3][0], value=strip(cb.return_expr()), item=("param", 2), vbody=cb, fn=None)
                if isinstance(f, tuple) and f[0] == "fn":
                    return dict(form="collect", source=m[3][0], value=None, item=None, vbody=None, fn=f[1])
    # `let mut v = Vec::with_capacity(n); v.extend(iter.map(f)); v` – an empty vector extended once by the mapped traversal is the
    # same vector as the collected one (the only mutation of that vector)
    for bb, t in tb.calls():
        if callee_name(t) == "extend" and len(tb.call_arg_exprs(bb)) == 2:
            m = strip(tb.call_arg_exprs(bb)[1])
            recv = t["args"][0]
            vec = None
            for l in range(1, len(tb.raw["locals"])):
                ms = mutation_sites(tb, l)
                if ms and (bb, "extend") in ms:
                    vec = l if len(ms) == 1 else -1
            starts_empty = False
            if vec and vec > 0:
                from .vecbuild import build_of
                try:
                    segs = build_of(prog, tb, vec)
                except Exception:
                    segs = None
                starts_empty = bool(segs) and segs[0] == ("elems", []) and len(segs) == 2
            if starts_empty and isinstance(m, tuple) and m[0] == "call" and m[1] == "map" and len(m[3]) == 2:
                cb, _ups = closure_of(prog, m[3][1])
                f = strip(m[3][1])
                if cb is not None:
                    return dict(form="collect", source=m[3][0], value=strip(cb.return_expr()), item=("param", 2), vbody=cb, fn=None, vec=vec)
                if isinstance(f, tuple) and f[0] == "fn":
                    return dict(form="collect", source=m[3][0], value=None, item=None, vbody=None, fn=f[1], vec=vec)
    try:
        lp = T_.Loop(tb)
        it = lp.iterator()
    except Exception:
        return None
    if it is None:
        return None
    il, item, iinit = it
    pushes = [pb for pb, t in tb.calls() if callee_name(t) == "push" and pb in lp.blocks]
    if len(pushes) != 1:
        return None
    recv = tb.term(pushes[0])["args"][0]
    # the vector pushed to: mutated by that push only
    vec = None
    for l in range(1, len(tb.raw["locals"])):
        ms = mutation_sites(tb, l)
        if ms and (pushes[0], "push") in ms:
            vec = l
            if {nm for _b, nm in ms} != {"push"} or len(ms) != 1:
                return None
    if vec is None:
        return None
    return dict(form="loop", source=iinit, value=strip(tb.call_arg_exprs(pushes[0])[1]), item=strip(item), vbody=tb, fn=None, vec=vec)


def rule_gridbuilder(ctx, prog, rule="R9"):
    """GridBuilder keeps the column order: builder j comes from column j of the data (from_array) and projection j of the grid
    is built by builder j (build) – both through order-preserving adaptors only"""
    from .rules_layout import producer_chain
    from .rules_terms import closure_of, unwrap_try
    # build: Grid::from(self.bin_builders.iter().map(|b| b.build()).collect())  – or the same as a push loop
    gb = prog.find("histogram::grid::GridBuilder::<B>::build")
    ok, detail = False, "the projections are not produced as build(builder) over one traversal of the builders"
    om = ordered_map(prog, gb)
    if om is not None:
        rb, re_, chain, bad = producer_chain(prog, prog.tracked(gb), om["source"], stop_at_field=True)
        if om["fn"]:
            per = om["fn"].endswith("::build")
        else:
            v = om["value"]
            unw = unwrap_try(v)
            per = isinstance(unw, tuple) and unw[0] == "call" and unw[1] == "build" and \
                (strip(unw[3][0])[:2] == ("param", 2) if om["form"] == "collect" else strip(unw[3][0]) == om["item"])
        root_ok = strip(re_) == ("field", ("param", 1, "self"), "bin_builders")
        ok = bad is None and per and root_ok
        detail = "projections = build(builder) for the builders in their own order (%s form)" % om["form"] if ok else \
            "projections come from `%s` through %s (order-disturbing: %s), per-builder build=%s" % (fmt(re_)[:60], chain, bad, per)
    ctx.ob(rule, "GridBuilder::build/builder-order", ok, gb.where(), detail, what="projection j not built by builder j")
    # from_array: one builder per column, in column order
    fa = prog.find("histogram::grid::GridBuilder::<B>::from_array")
    ok, detail = False, "the builders are not produced as B::from_array(column) over one traversal of the columns"
    om = ordered_map(prog, fa)
    if om is not None:
        it = strip(om["source"])
        chain = []
        while isinstance(it, tuple) and it[0] == "call" and it[1] != "axis_iter" and it[3]:
            chain.append(it[1])
            it = strip(it[3][0])
        from .rules_layout import ORDER_PRESERVING
        bad = [c for c in chain if c not in ORDER_PRESERVING]
        src_ok = isinstance(it, tuple) and it[0] == "call" and it[1] == "axis_iter" and strip(it[3][0])[:2] == ("param", 1) and \
            isinstance(strip(it[3][1]), tuple) and strip(it[3][1])[0] == "agg" and strip(strip(it[3][1])[3][0]) == ("const", "usize", 1)
        v = unwrap_try(om["value"]) if om["value"] is not None else None
        per = isinstance(v, tuple) and v[0] == "call" and v[1] == "from_array" and \
            (strip(v[3][0])[:2] == ("param", 2) if om["form"] == "collect" else strip(v[3][0]) == om["item"])
        if not (src_ok and per) and isinstance(v, tuple) and v[0] == "call" and v[1] == "from_array":
            # index form: `for k in 0..array.len_of(Axis(1)) { B::from_array(&array.index_axis(Axis(1), k)) }` – column k for
            # k = 0, 1, … in order, i.e. the columns in the order of axis_iter(Axis(1))
            def is_ax1(e_):
                e_ = strip(e_)
                return isinstance(e_, tuple) and e_[0] == "agg" and strip(e_[3][0]) == ("const", "usize", 1)
            col = strip(v[3][0])
            rng_ok = isinstance(it, tuple) and ((it[0] == "agg" and "Range" in str(it[1])) or (it[0] == "call" and it[1] == "new" and "Range" in it[2]))
            if rng_ok:
                lo_, hi_ = (strip(it[3][0]), strip(it[3][1]))
                rng_ok = lo_ == ("const", "usize", 0) and isinstance(hi_, tuple) and hi_[0] == "call" and hi_[1] in ("len_of", "ncols") and \
                    strip(hi_[3][0])[:2] == ("param", 1) and (hi_[1] == "ncols" or is_ax1(hi_[3][1])) and "Inclusive" not in str(it[1] if it[0] == "agg" else it[2])
            item_ = strip(("param", 2)) if om["form"] == "collect" else om["item"]
            col_ok = isinstance(col, tuple) and col[0] == "call" and col[1] in ("index_axis", "column") and strip(col[3][0])[:2] == ("param", 1) and \
                ((col[1] == "column" and strip(col[3][1])[:2] == item_[:2]) or (len(col[3]) == 3 and is_ax1(col[3][1]) and (strip(col[3][2]) == item_ or strip(col[3][2])[:2] == ("param", 2))))
            if rng_ok and col_ok and not bad:
                src_ok, per = True, True
        ok = src_ok and not bad and per
        detail = "builders = B::from_array(column) for the columns of array.axis_iter(Axis(1)) in order (%s form)" % om["form"] if ok else \
            "columns come from `%s` through %s, per-column from_array=%s" % (fmt(it)[:60], chain, per)
    ctx.ob(rule, "GridBuilder::from_array/column-order", ok, fa.where(), detail, what="builder j not derived from column j")
