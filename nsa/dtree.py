"""Guarded-value tables: a loop-free private function (crate-local helpers inlined) is read as a finite table
`assignment of atomic predicates → returned expression`, independent of how the decision is spelled in the source
(an `if`, a `!helper()`, a `match` on a private enum computed by a helper, ...).

  * paths come from paths.enumerate_paths, every expression is resolved along its own path (paths.resolve_phi);
  * a decision on the discriminant of an enum value that the path itself constructed is decided statically
    (infeasible combinations are dropped, feasible ones leave no atom behind);
  * the remaining decisions and returned booleans are Boolean combinations (Not / constants) of *atoms*:
    comparisons and bool-valued calls, canonicalised by the caller;
  * table(assignment) evaluates the unique path whose decisions hold.
Nothing is executed: the table is the extracted MIR decision tree."""
from itertools import product
from .facts import ds, fmt, inline_calls
from .paths import enumerate_paths, resolve_phi, NotLoopFree


class NoTable(Exception):
    pass


_CMP = {"Lt", "Le", "Gt", "Ge", "Eq", "Ne"}
_FLIP = {"Lt": "Gt", "Le": "Ge", "Gt": "Lt", "Ge": "Le", "Eq": "Eq", "Ne": "Ne"}
_NEG = {"Lt": "Ge", "Le": "Gt", "Gt": "Le", "Ge": "Lt", "Eq": "Ne", "Ne": "Eq"}
_CALLCMP = {"lt": "Lt", "le": "Le", "gt": "Gt", "ge": "Ge", "eq": "Eq", "ne": "Ne"}


class Table(object):
    def __init__(self, prog, body, canon, should_inline=None, max_depth=3):
        """canon(expr, body) → hashable canonical form of a non-Boolean operand of an atom"""
        self.prog = prog
        b = body
        if should_inline is not None:
            b = inline_calls(prog, body, should_inline, max_depth=max_depth)
        self.body = prog.tracked(b) if hasattr(prog, "tracked") else b
        self.canon = canon
        self.atoms = []          # canonical atoms in order of discovery: (op, lhs, rhs) with op in Lt/Le/Eq or ('call', name, args)
        self.rows = []           # (conds, value) ; conds = [(boolexpr, expected_bool)] ; value = bool-expr or ('val', expr)
        try:
            paths = enumerate_paths(self.body)
        except NotLoopFree as ex:
            raise NoTable("not loop free: %s" % ex)
        for p in paths:
            decisions, ret_def, _asserts = p
            conds = []
            feasible = True
            for bb, de, v in decisions:
                e = ds(resolve_phi(self.body, de, p.blocks))
                st = self._static_discr(e)
                if st is not None:
                    hit = (st == v) if not isinstance(v, tuple) else (st not in v[1])
                    if not hit:
                        feasible = False
                        break
                    continue
                be = self.boolexpr(e)
                if be is None:
                    raise NoTable("decision on `%s` is not a Boolean combination of comparisons" % fmt(e)[:80])
                if isinstance(v, tuple):        # otherwise-arm: not in vals
                    vals = v[1]
                    if set(vals) == {0}:
                        conds.append((be, True))
                    elif set(vals) == {1}:
                        conds.append((be, False))
                    else:
                        raise NoTable("non-Boolean switch on `%s`" % fmt(e)[:60])
                elif v in (0, 1):
                    conds.append((be, bool(v)))
                else:
                    raise NoTable("non-Boolean switch on `%s`" % fmt(e)[:60])
            if not feasible:
                continue
            if ret_def is None:
                raise NoTable("path without a returned value")
            r = ds(resolve_phi(self.body, self.body.def_expr(0, ret_def), p.blocks))
            self.rows.append((conds, r))
        if not self.rows:
            raise NoTable("no feasible path")

    # ---- enum values built on the path itself
    def _static_discr(self, e):
        if isinstance(e, tuple) and e[0] == "discr":
            a = ds(e[1])
            if isinstance(a, tuple) and a[0] == "agg" and a[1] not in ("tuple", "closure", "array"):
                adt = self.prog.adts.get(a[1])
                if adt and adt.get("kind") == "Enum":
                    names = [v_["name"] for v_ in adt["variants"]]
                    if a[2] in names:
                        return names.index(a[2])
        return None

    # ---- Boolean structure over atoms
    def atom(self, op, l, r):
        if op in ("Gt", "Ge"):
            op, l, r = _FLIP[op], r, l
        neg = False
        if op == "Le":           # a <= b  ≡  !(b < a) on totally ordered operands (the callers' operands are never NaN)
            op, l, r, neg = "Lt", r, l, True
        if op == "Ne":
            op, neg = "Eq", not neg
        key = (op, self.canon(l, self.body), self.canon(r, self.body))
        if op == "Eq" and repr(key[1]) > repr(key[2]):
            key = (op, key[2], key[1])
        if key not in self.atoms:
            self.atoms.append(key)
        be = ("atom", self.atoms.index(key))
        return ("not", be) if neg else be

    def boolexpr(self, e):
        e = ds(e)
        if not isinstance(e, tuple):
            return None
        if e[0] == "const" and isinstance(e[2], bool):
            return ("const", e[2])
        if e[0] == "unop" and e[1] == "Not":
            x = self.boolexpr(e[2])
            return None if x is None else ("not", x)
        if e[0] == "binop" and e[1] in _CMP:
            return self.atom(e[1], e[2], e[3])
        if e[0] == "binop" and e[1] in ("BitAnd", "BitOr"):
            a, b = self.boolexpr(e[2]), self.boolexpr(e[3])
            if a is None or b is None:
                return None
            return ("and" if e[1] == "BitAnd" else "or", a, b)
        if e[0] == "call" and e[1] in _CALLCMP and len(e[3]) == 2:
            return self.atom(_CALLCMP[e[1]], e[3][0], e[3][1])
        if e[0] == "call" and e[1] == "not" and len(e[3]) == 1:
            x = self.boolexpr(e[3][0])
            return None if x is None else ("not", x)
        return None

    @staticmethod
    def beval(be, asg):
        k = be[0]
        if k == "const":
            return be[1]
        if k == "atom":
            return asg[be[1]]
        if k == "not":
            return not Table.beval(be[1], asg)
        if k == "and":
            return Table.beval(be[1], asg) and Table.beval(be[2], asg)
        return Table.beval(be[1], asg) or Table.beval(be[2], asg)

    def finish(self):
        """values: Boolean results become bool-exprs (so that all atoms are known before enumeration)"""
        out = []
        for conds, r in self.rows:
            be = self.boolexpr(r)
            out.append((conds, ("bool", be) if be is not None else ("val", r)))
        self.rows = out
        return self

    def assignments(self):
        return list(product((False, True), repeat=len(self.atoms)))

    def at(self, asg):
        """value under an assignment: a Python bool for Boolean results, else the returned expression"""
        hits = [v for conds, v in self.rows if all(self.beval(c, asg) == exp for c, exp in conds)]
        if len(hits) != 1:
            raise NoTable("%d paths are taken under %s" % (len(hits), asg))
        v = hits[0]
        return self.beval(v[1], asg) if v[0] == "bool" else v[1]
