#!/usr/bin/env python3
"""tools/mkmutant.py <name> <file> <old> <new> [--header "C13 | text"]: write mutants/<name>.patch replacing the first
occurrence of <old> by <new> in /repo/<file> (the repo itself is not touched)."""
import difflib
import sys
name, path, old, new = sys.argv[1:5]
hdr = sys.argv[6] if len(sys.argv) > 6 else name
src = open("/repo/" + path).read()
assert old in src, "pattern not found"
dst = src.replace(old, new, 1)
diff = difflib.unified_diff(src.splitlines(True), dst.splitlines(True), "a/" + path, "b/" + path)
out = "# %s\n" % hdr + "".join(diff)
open("/verif/mutants/%s.patch" % name, "w").write(out)
print(out)
