"""R21 COMPACT (C04) and R22 PARTITION (C15): value-level postconditions by candidate-invariant checking (Engine F)."""
from .facts import callee_name, ds, fmt
from .rules_layout import short
from .segments import SegmentAnalysis, State, show_fact, show_term, tadd
from .zones import ZoneAnalysis


def arg_local(t, i):
    a = t["args"][i]
    if a["k"] in ("move", "copy") and not a["pl"]["p"]:
        return a["pl"]["l"]
    return None


def nan_pred(t, bb, sa, st):
    if callee_name(t) == "is_nan" and "MaybeNan" in (t["callee"].get("trait") or t["callee"].get("path") or ""):
        l = arg_local(t, 0)
        if l is not None and l in st.elem:
            return st.elem[l], "NAN"
    return None


def cursor_candidates(sa, za, preds, lows=(0, 1), point_preds=()):
    """for every loop-carried usize cursor x:  ∀k∈[c, x): P  and  ∀k∈[x+1, N): P"""
    b = sa.b
    cursors = []
    for l in za.int_locals:
        if b.local_name(l) and len(b.defs_of(l)) >= 2:
            cursors.append("_%d" % l)
    # loop-carried cursors kept in a tuple or a small struct of integers
    for l, fs in getattr(za, "tuple_fields", {}).items():
        if b.local_name(l) and len(b.defs_of(l)) >= 2:
            cursors.extend("_%d.%d" % (l, i) for i in fs)
    cands = set()
    for x in cursors:
        for P in preds:
            for c in lows:
                cands.add(("seg", ("Z", c), (x, 0), P))
            cands.add(("seg", (x, 1), ("N", 0), P))
    # guarded point facts between two cursors:  x ≤ y ⇒ P(a[x]),  x ≤ y ⇒ P(a[y])
    for x in cursors:
        for y in cursors:
            if x == y:
                continue
            for P in preds:
                cands.add(("if", ("le", (x, 0), (y, 0)), ("pt", (x, 0), P)))
                cands.add(("if", ("le", (x, 0), (y, 0)), ("pt", (y, 0), P)))
    for P in point_preds:
        for c in lows:
            cands.add(("pt", ("Z", c), P))
    return cands, cursors


def pivot_local_of(b):
    """local that holds `self[pivot_index].clone()` and the pivot_index parameter"""
    pidx = [l for l in range(1, b.arg_count + 1) if "uint:usize" in b.local_flags(l)]
    for bb, t in b.calls():
        if callee_name(t) == "clone":
            e = ds(b.call_arg_exprs(bb)[0])
            if isinstance(e, tuple) and e[0] == "call" and e[1] == "index" and ds(e[3][0])[:2] == ("param", 1) and ds(e[3][1])[0] == "param":
                if not t["dst"]["p"]:
                    return t["dst"]["l"], ds(e[3][1])[1]
    return None, None


def pivot_aliases(b, pv_local):
    """the locals the pivot value is moved through (a set-up helper returns it into the routine's own local): whole-local moves only"""
    al = {pv_local}
    changed = True
    while changed:
        changed = False
        for blk in b.raw["blocks"]:
            for s_ in blk["stmts"]:
                if s_.get("k") == "assign" and not s_["dst"]["p"] and s_["rv"].get("k") == "use" and s_["rv"]["a"]["k"] in ("move", "copy") \
                        and not s_["rv"]["a"]["pl"]["p"] and s_["rv"]["a"]["pl"]["l"] in al and s_["dst"]["l"] not in al:
                    al.add(s_["dst"]["l"])
                    changed = True
    return al


def make_partition_preds(pv_local, aliases=None):
    pvs = set(aliases or ()) | {pv_local}

    class _PV(object):          # compares equal to every alias of the pivot local
        def __eq__(self, other):
            return other in pvs
        def __hash__(self):
            return 0
    pv_local = _PV()

    def on_call(t, bb, sa, st):
        if callee_name(t) == "clone" and not t["dst"]["p"] and t["dst"]["l"] == pv_local:
            l = arg_local(t, 0)
            if l is not None and l in st.elem:
                st.add_pt(st.elem[l], "EQPV")

    def pred(t, bb, sa, st):
        nm = callee_name(t)
        tr = t["callee"].get("trait") or ""
        if nm in ("ge", "le", "lt", "gt") and tr.endswith("cmp::PartialOrd") and len(t["args"]) == 2:
            a, c = arg_local(t, 0), arg_local(t, 1)
            if a is None or c is None:
                return None
            a_elem, c_elem = st.elem.get(a), st.elem.get(c)
            a_pv, c_pv = st.refto.get(a) == pv_local, st.refto.get(c) == pv_local
            if a_elem is not None and c_pv:          # elem OP pv
                return {"ge": (a_elem, "GE"), "lt": (a_elem, "LT")}.get(nm)
            if c_elem is not None and a_pv:          # pv OP elem
                return {"le": (c_elem, "GE"), "gt": (c_elem, "LT")}.get(nm)
        if nm == "cmp" and tr.endswith("cmp::Ord") and len(t["args"]) == 2:
            # three-way comparison (Ord is assumed lawful and consistent with the operators): Less/Equal/Greater → predicate
            a, c = arg_local(t, 0), arg_local(t, 1)
            if a is None or c is None:
                return None
            a_elem, c_elem = st.elem.get(a), st.elem.get(c)
            a_pv, c_pv = st.refto.get(a) == pv_local, st.refto.get(c) == pv_local
            if a_elem is not None and c_pv:          # elem.cmp(pv)
                return (a_elem, {-1: "LT", 0: "GE", 1: "GE"})
            if c_elem is not None and a_pv:          # pv.cmp(elem)
                return (c_elem, {-1: "GE", 0: "GE", 1: "LT"})
        return None
    return pred, on_call


def rule_r22_partition(ctx, prog, rule="R22", body=None):
    """partition_mut: on return k, a[k] = pivot value, ∀x<k: a[x] < pv, ∀x>k: a[x] ≥ pv
       (with R4 – only swaps – k is then the number of elements strictly smaller than the pivot)"""
    b = body or prog.method("Sort1dExt", "partition_mut")
    from .facts import inline_calls
    from .rules_zones import helper_filter
    b = inline_calls(prog, b, helper_filter(prog))
    from .facts import eliminate_static_refs
    b = eliminate_static_refs(prog, b)
    from .facts import thread_constant_flags
    b = thread_constant_flags(prog, b)
    from .facts import lower_checked_arith
    b = lower_checked_arith(prog, b)
    pv_local, pidx = pivot_local_of(b)
    if pv_local is None:
        ctx.ob(rule, "partition_mut/pivot-value", False, b.where(), "anchor missing: `self[pivot_index].clone()` not found", what="anchor missing")
        return
    za = ZoneAnalysis(b, lambda st, z: st.add("_%d" % pidx, "N", -1))
    za.run()
    pred, on_call = make_partition_preds(pv_local, pivot_aliases(b, pv_local))
    sa = SegmentAnalysis(b, za, pred, on_call=on_call)
    cands, cursors = cursor_candidates(sa, za, ("LT", "GE"), lows=(0, 1), point_preds=("EQPV",))
    C = sa.houdini({h: set(cands) for h in sa.heads})
    inv = sorted({show_fact(f, sa) for h in sa.heads for f in C[h]})
    ctx.extras["R22_invariants"] = {("bb%d" % h): sorted(show_fact(f, sa) for f in C[h]) for h in sa.heads}
    ctx.extras["R22_candidates"] = len(cands)
    ok_inv = any("LT" in s and "[1," in s for s in inv) and any("GE" in s and "len)" in s for s in inv) and any("EQPV" in s for s in inv)
    ctx.ob(rule, "partition_mut/inductive-invariants", ok_inv, b.where(),
           "inductive at the %d loop heads (Houdini over %d candidates): %s" % (len(sa.heads), len(cands), "; ".join(inv)) if ok_inv else
           "no inductive partition invariant could be established (surviving: %s)" % inv, what="partition invariant not inductive")

    def post(st, path):
        # the returned value: last assignment to _0 on the path
        k = None
        for pb in path[:-1]:
            for si, s in enumerate(b.blocks[pb]["stmts"]):
                if s["k"] == "assign" and s["dst"]["l"] == 0 and not s["dst"]["p"]:
                    rv = s["rv"]
                    if rv["k"] == "use" and rv["a"]["k"] in ("move", "copy"):
                        pl = rv["a"]["pl"]
                        if not pl["p"]:
                            k = sa.opnd_term(rv["a"])
                        elif len(pl["p"]) == 1 and isinstance(pl["p"][0], dict) and pl["p"][0].get("field") == 0 and pl["l"] in st.pending:
                            op, aa, cc = st.pending[pl["l"]]
                            if aa and cc and cc[0] == "Z":
                                k = (aa[0], aa[1] + (cc[1] if op == "Add" else -cc[1]))
                    elif rv["k"] == "use" and rv["a"]["k"] == "const":
                        k = sa.opnd_term(rv["a"])
                    elif rv["k"] == "binop" and rv["op"] in ("Add", "Sub"):
                        aa, cc = sa.opnd_term(rv["a"]), sa.opnd_term(rv["b"])
                        if aa and cc and cc[0] == "Z":
                            c = cc[1] if rv["op"] == "Add" else -cc[1]
                            if c >= 0 or st.d.entails("Z", aa[0], aa[1] + c):      # unchecked subtraction: exact only if it cannot wrap
                                k = (aa[0], aa[1] + c)
        if k is None:
            return [("returns-rank", False, "returned value not recognised on path %s" % path)]
        return [("pivot-at-k", st.holds_at(k, "EQPV"), "a[k] = pivot value with k = %s on path %s" % (show_term(k, sa), path)),
                ("left-strictly-smaller", st.covers(("Z", 0), k, "LT"), "∀x<k: a[x] < pv (k = %s) on path %s" % (show_term(k, sa), path)),
                ("right-greater-or-equal", st.covers(tadd(k, 1), ("N", 0), "GE"), "∀x>k: a[x] ≥ pv (k = %s) on path %s" % (show_term(k, sa), path))]
    res = sa.check_post(C, post)
    names = {}
    for nm, ok, detail in res:
        cur = names.setdefault(nm, [True, 0, ""])
        cur[1] += 1
        if not ok:
            cur[0] = False
            cur[2] = detail
    for nm in ("returns-rank", "pivot-at-k", "left-strictly-smaller", "right-greater-or-equal"):
        if nm not in names:
            if nm == "returns-rank":
                continue
            ctx.ob(rule, "partition_mut/%s" % nm, False, b.where(), "anchor missing: no return path analysed", what="anchor missing")
            continue
        ok, n, detail = names[nm]
        text = {"returns-rank": "the returned value is recognised", "pivot-at-k": "position k holds the pivot value",
                "left-strictly-smaller": "every element before k is strictly smaller than the pivot value",
                "right-greater-or-equal": "every element after k is greater than or equal to the pivot value"}[nm]
        ctx.ob(rule, "partition_mut/%s" % nm, ok, b.where(),
               "%s — on all %d return path states" % (text, n) if ok else "not established: %s" % detail, what="partition postcondition")
    ctx.floor(rule, len(res), 3, "postcondition instances on return paths")
    from .segments import check_progress
    okp, pdetail, _n = check_progress(sa, C, cursors)
    ctx.ob(rule, "partition_mut/terminates", okp, b.where(), pdetail, what="partition loop may not terminate")
    return C, sa


def rule_r21_compaction(ctx, prog, rule="R21", body=None):
    """generic remove_nan_mut: on every return the result is the prefix view[..x] with
       ∀k<x: ¬nan(view[k])  and  ∀k≥x: nan(view[k])   (with R4: the elements are a permutation of the input)"""
    b = body or prog.find("maybe_nan::remove_nan_mut")
    from .facts import inline_calls
    from .rules_zones import helper_filter
    b = inline_calls(prog, b, helper_filter(prog))
    from .facts import eliminate_static_refs
    b = eliminate_static_refs(prog, b)
    from .facts import thread_constant_flags
    b = thread_constant_flags(prog, b)
    from .facts import lower_checked_arith
    b = lower_checked_arith(prog, b)
    za = ZoneAnalysis(b, lambda st, z: None)
    za.run()
    sa = SegmentAnalysis(b, za, nan_pred)
    cands, cursors = cursor_candidates(sa, za, ("NAN", "NOTNAN"), lows=(0,))
    C = sa.houdini({h: set(cands) for h in sa.heads})
    inv = sorted({show_fact(f, sa) for h in sa.heads for f in C[h]})
    ctx.extras["R21_invariants"] = {("bb%d" % h): sorted(show_fact(f, sa) for f in C[h]) for h in sa.heads}
    ctx.extras["R21_candidates"] = len(cands)
    ok_inv = any("NOTNAN" in s for s in inv) and any("): NAN" in s for s in inv)
    ctx.ob(rule, "remove_nan_mut/inductive-invariants", ok_inv, b.where(),
           "inductive at all %d loop heads (Houdini over %d candidates): %s" % (len(sa.heads), len(cands), "; ".join(inv)) if ok_inv else
           "no inductive prefix/suffix invariant could be established (surviving: %s)" % inv, what="compaction invariant not inductive")
    from .segments import check_progress
    okp, pdetail, _n = check_progress(sa, C, cursors)
    ctx.ob(rule, "remove_nan_mut/terminates", okp, b.where(), pdetail, what="compaction loop may not terminate")

    # the returned value on each path: slice_move(view, ..x)
    def post(st, path):
        out = []
        # find the slice_move call on this path and the RangeTo end operand
        x = None
        whole = False
        for bb in path[:-1]:
            t = b.term(bb)
            if t["k"] == "call" and callee_name(t) == "slice_move":
                e = ds(b.call_arg_exprs(bb)[1])
                # locate the RangeTo aggregate statement that feeds it, on this path
                for pb in path[:-1]:
                    for si, s in enumerate(b.blocks[pb]["stmts"]):
                        if s["k"] == "assign" and s["rv"]["k"] == "agg" and s["rv"].get("adt") == "std::ops::RangeTo":
                            x = sa.opnd_term(s["rv"]["fields"][0])
                        elif s["k"] == "assign" and s["rv"]["k"] == "agg" and (s["rv"].get("adt") or "").startswith("std::ops::Range"):
                            whole = True
        if x is None or whole:
            out.append(("returns-prefix", False, "a return path does not return `view.slice_move(s![..x])` (path %s)" % path))
            return out
        le_n = st.le(x, ("N", 0))
        out.append(("prefix-in-bounds", le_n, "x ≤ len on path %s" % path))
        out.append(("prefix-not-nan", st.covers(("Z", 0), x, "NOTNAN"), "∀k<x: ¬nan(view[k]) with x = %s on path %s" % (show_term(x, sa), path)))
        out.append(("rest-is-nan", st.covers(x, ("N", 0), "NAN"), "∀k≥x: nan(view[k]) with x = %s on path %s" % (show_term(x, sa), path)))
        return out
    res = sa.check_post(C, post)
    names = {}
    for nm, ok, detail in res:
        cur = names.setdefault(nm, [True, 0, ""])
        cur[1] += 1
        if not ok:
            cur[0] = False
            cur[2] = detail
    for nm in ("returns-prefix", "prefix-in-bounds", "prefix-not-nan", "rest-is-nan"):
        if nm not in names:
            if nm == "returns-prefix":
                continue
            ctx.ob(rule, "remove_nan_mut/%s" % nm, False, b.where(), "anchor missing: no return path analysed", what="anchor missing")
            continue
        ok, n, detail = names[nm]
        text = {"returns-prefix": "every return is a prefix slice of the view",
                "prefix-in-bounds": "the prefix length never exceeds the view length",
                "prefix-not-nan": "no element of the returned prefix is NaN/None",
                "rest-is-nan": "every element left out is NaN/None (so the prefix holds all non-missing elements: length = their count)"}[nm]
        ctx.ob(rule, "remove_nan_mut/%s" % nm, ok, b.where(),
               "%s — on all %d return path states" % (text, n) if ok else "not established: %s" % detail,
               what="compaction postcondition")
    ctx.floor(rule, len(res), 6, "postcondition instances on return paths")
    return C, sa


def selection_helper(prog, sel):
    """When get_from_sorted_mut is not itself recursive but hands its work to ONE private self-recursive function taking a view
    of the array and one position (`quickselect_with_rng(self.view_mut(), i, &mut rng)`), that function is the selection routine
    the proofs are about: → (helper body, index parameter) or None"""
    if any(prog.local_callee_body(t) is not None and prog.local_callee_body(t).key == sel.key for _bb, t in sel.calls()):
        return None
    cands = []
    for _bb, t in sel.calls():
        cb = prog.local_callee_body(t)
        if cb is None or cb.is_closure or cb.key in prog.exported or cb.key == sel.key:
            continue
        if not any(prog.local_callee_body(t2) is not None and prog.local_callee_body(t2).key == cb.key for _b2, t2 in cb.calls()):
            continue
        if "array" not in cb.local_flags(1):
            continue
        ip = [l for l in range(1, cb.arg_count + 1) if "uint:usize" in cb.local_flags(l) and "ref" not in cb.local_flags(l)]
        if len(ip) == 1 and cb.key not in [c[0].key for c in cands]:
            cands.append((cb, ip[0]))
    return cands[0] if len(cands) == 1 else None


def rule_r24_selection(ctx, prog, rule="R24"):
    """single selection returns the element of rank i with the documented ordering of the rest (C02, single form)"""
    from .selection import SelectionProof
    b = prog.method("Sort1dExt", "get_from_sorted_mut")
    part = prog.method("Sort1dExt", "partition_mut")
    ipar = [l for l in range(1, b.arg_count + 1) if "uint:usize" in b.local_flags(l)]
    if len(ipar) != 1:
        ctx.ob(rule, "get_from_sorted_mut/index-param", False, b.where(), "anchor missing: index parameter", what="anchor missing")
        return
    from .facts import inline_calls
    from .rules_zones import helper_filter
    hp0 = selection_helper(prog, b)
    hf_ = helper_filter(prog)
    b = inline_calls(prog, b, (lambda cb: hf_(cb) and cb.key != hp0[0].key) if hp0 is not None else hf_)
    from .facts import eliminate_static_refs
    b = eliminate_static_refs(prog, b)
    from .facts import thread_constant_flags
    b = thread_constant_flags(prog, b)
    from .facts import lower_checked_arith
    b = lower_checked_arith(prog, b)
    hp = hp0
    if hp is not None:
        # the recursion lives in a private helper: the wrapper is judged with the helper's (separately proved) contract as the
        # callee's contract, then the helper takes the routine's place below
        wrapper = b
        spw = SelectionProof(prog, wrapper, part.key, {hp[0].key})
        try:
            resw = spw.prove(ipar[0])
            badw = [r for r in resw if not (r[1] and r[2] and r[3])]
            ctx.ob(rule, "get_from_sorted_mut/wrapper", not badw and bool(resw), wrapper.where(),
                   "every return path of the wrapper hands back the element at position i with the documented order of the rest, given the "
                   "recursive helper's contract on the whole view (%d paths)" % len(resw) if (not badw and resw) else
                   "not established on the wrapper's return path through blocks %s%s" % ((badw[0][0], (": " + badw[0][4]) if badw[0][4] else "") if badw else ("-", "")),
                   what="selection postcondition")
        except Exception as ex:
            ctx.ob(rule, "get_from_sorted_mut/wrapper", False, wrapper.where(), "anchor not recognised: %r" % (ex,), what="anchor not recognised")
        b = hp[0]
        ipar = [hp[1]]
        b = lower_checked_arith(prog, thread_constant_flags(prog, eliminate_static_refs(prog, inline_calls(prog, b, helper_filter(prog)))))
    sp = SelectionProof(prog, b, part.key, {b.key})
    try:
        res = sp.prove(ipar[0])
    except Exception as ex:   # path enumeration / modelling failure: fail closed
        ctx.ob(rule, "get_from_sorted_mut/paths", False, b.where(), "anchor not recognised: %r" % (ex,), what="anchor not recognised")
        return
    ctx.floor(rule, len(res), 3, "return paths of get_from_sorted_mut")
    ctx.extras["R24_paths"] = [{"blocks": r[0], "a[i]=r": r[1], "left<=r": r[2], "right>=r": r[3]} for r in res]
    for name, idx, text in (("returns-element-at-i", 1, "the returned value is the element now at position i"),
                            ("left-not-greater", 2, "every element before position i is ≤ the returned value"),
                            ("right-not-smaller", 3, "every element after position i is ≥ the returned value")):
        bad = [r for r in res if not r[idx]]
        ctx.ob(rule, "get_from_sorted_mut/%s" % name, not bad, b.where(),
               "%s — on all %d return paths (partition contract R22 + induction hypothesis on the strictly shorter sub-view)" % (text, len(res))
               if not bad else "not established on the return path through blocks %s%s" % (bad[0][0], (": " + bad[0][4]) if bad[0][4] else ""),
               what="selection postcondition")
    # recursion is on a strictly shorter view (well-founded induction): every recursive call receives a slice_axis_mut of self
    rec_calls = [(bb, t) for bb, t in b.calls() if prog.local_callee_body(t) is not None and prog.local_callee_body(t).key == b.key]
    ok = bool(rec_calls)
    for bb, t in rec_calls:
        a0 = ds(b.call_arg_exprs(bb)[0])
        ok = ok and isinstance(a0, tuple) and a0[0] == "call" and a0[1] == "slice_axis_mut" and ds(a0[3][0])[:2] == ("param", 1)
    ctx.ob(rule, "get_from_sorted_mut/recursion-on-subview", ok, b.where(),
           "each of the %d recursive calls is on slice_axis_mut(self, ..k) or (k+1..) with k < len: strictly shorter" % len(rec_calls) if ok else
           "a recursive call is not on a proper sub-view of self", what="induction not well-founded")


def bulk_result_zip(w):
    """the `zip(indexes…, values…)` expression whose pairs, in iteration order, make up the map returned by the bulk
    wrapper: either `zip.collect()` or an IndexMap constructor filled only by `insert(k, v)` with (k, v) the items of one
    loop over that zip.  None if the result is built any other way."""
    zips = []
    for dd in w.reaching_defs(0, w.exits()[0], "term"):
        f = ds(w.def_expr(0, dd))
        if not (isinstance(f, tuple) and f[0] == "call"):
            return None
        if f[1] == "collect" and f[3]:
            z = ds(f[3][0])
            if isinstance(z, tuple) and z[0] == "call" and z[1] == "zip":
                zips.append(z)
                continue
            return None
        if f[1] in ("new", "with_capacity", "default", "with_capacity_and_hasher", "with_hasher") and "IndexMap" in str(f[2] if len(f) > 2 else ""):
            pass
        elif f[1] not in ("new", "with_capacity", "default"):
            return None
        # a constructor: every mutation of that map must be an insert of the items of a loop over one zip
        n_ins = 0
        for bb, t in w.calls():
            args = [ds(a) for a in w.call_arg_exprs(bb)]
            if not args or args[0] != f or not t["arg_tys"] or not t["arg_tys"][0].startswith("&mut "):
                continue
            if callee_name(t) == "extend" and len(args) == 2:
                # `map.extend(indexes.zip(values))`: the pairs of that zip, in iteration order (what collect() does)
                z = args[1]
                while isinstance(z, tuple) and z[0] == "call" and z[1] == "into_iter" and z[3]:
                    z = ds(z[3][0])
                if isinstance(z, tuple) and z[0] == "call" and z[1] == "zip":
                    zips.append(z)
                    n_ins += 1
                    continue
                return None
            if callee_name(t) != "insert" or len(args) != 3:
                return None

            def item(e, want):
                e = ds(e)
                if not (isinstance(e, tuple) and e[0] == "field" and str(e[2]) == str(want)):
                    return None
                e = ds(e[1])
                if isinstance(e, tuple) and e[0] == "field" and str(e[2]) == "0":
                    e = ds(e[1])
                if isinstance(e, tuple) and e[0] == "downcast":
                    e = ds(e[1])
                if isinstance(e, tuple) and e[0] == "call" and e[1] == "next" and e[3]:
                    it = ds(e[3][0])
                    while isinstance(it, tuple) and it[0] == "call" and it[1] == "into_iter" and it[3]:
                        it = ds(it[3][0])
                    return it if isinstance(it, tuple) and it[0] == "call" and it[1] == "zip" else None
                return None
            zk, zv = item(args[1], 0), item(args[2], 1)
            if zk is None or zk != zv:
                return None
            zips.append(zk)
            n_ins += 1
        if f[1] != "new" and n_ins == 0:
            return None
    if not zips or any(z != zips[0] for z in zips):
        return None
    return zips[0]


def rule_r25_bulk_selection(ctx, prog, rule="R25"):
    """bulk selection writes, for every requested index, the element of that rank (C02, bulk form)"""
    from .bulkselect import BulkProof
    b = prog.find("sort::_get_many_from_sorted_mut_unchecked", required=False)
    if b is None:
        ctx.ob(rule, "bulk/recursive-routine", False, "src/sort.rs", "anchor missing: sort::_get_many_from_sorted_mut_unchecked", what="anchor missing")
        return
    part = prog.method("Sort1dExt", "partition_mut")
    from .facts import inline_calls
    from .rules_zones import helper_filter
    b = inline_calls(prog, b, helper_filter(prog))
    from .facts import eliminate_static_refs
    b = eliminate_static_refs(prog, b)
    from .facts import thread_constant_flags
    b = thread_constant_flags(prog, b)
    from .facts import lower_checked_arith
    b = lower_checked_arith(prog, b)
    bp = BulkProof(prog, b, part.key)
    if None in (bp.p_arr, bp.p_idx, bp.p_val):
        ctx.ob(rule, "bulk/parameters", False, b.where(), "anchor missing: (array view, index slice, value slice) parameters", what="anchor missing")
        return
    try:
        res = bp.prove()
    except Exception as ex:   # path enumeration / modelling failure: fail closed
        ctx.ob(rule, "bulk/paths", False, b.where(), "anchor not recognised: %r" % (ex,), what="anchor not recognised")
        return
    ctx.floor(rule, len({tuple(r["blocks"]) for r in res}), 3, "return paths of the recursive bulk routine")
    ctx.extras["R25_paths"] = res
    bad = [r for r in res if not r["ok"]]
    ctx.ob(rule, "bulk/every-requested-rank", not bad, b.where(),
           "for an arbitrary position t of the index list: on return values[t] = w with array[j] = w, everything before j ≤ w, everything "
           "after j ≥ w (j = indexes[t] on entry) — on all %d (return path, case t<split / t=split / t>split) pairs, using the contracts of "
           "partition_mut (R22) and binary_search and the induction hypothesis, whose precondition (strictly increasing, in bounds of the "
           "sub-view after rebasing by exactly its start, aligned slices) is proved at both recursive calls" % len(res) if not bad else
           "not established on the path through blocks %s (case %s): %s" % (bad[0]["blocks"], bad[0]["case"], bad[0]["why"]),
           what="bulk selection postcondition")
    tb = [d for ok_, d in bp.term_obs if not ok_]
    ctx.ob(rule, "bulk/recursion-on-strictly-shorter-view", bool(bp.term_obs) and not tb, b.where(),
           "each of the %d recursive calls met on the paths receives a sub-view provably shorter than the current view: the recursion "
           "terminates" % len(bp.term_obs) if bp.term_obs and not tb else "a recursive call is not on a provably shorter sub-view: %s" % (tb[:1] or "no recursive call analysed"),
           what="recursion may not terminate")
    # the wrapper establishes the precondition's shape: whole view, private copy of the index list, one value slot per index
    w = prog.find("sort::get_many_from_sorted_mut_unchecked")
    calls = [(bb, t) for bb, t in w.calls() if prog.local_callee_body(t) is not None and prog.local_callee_body(t).key == b.key]
    ok = len(calls) == 1
    detail = "exactly one call of the recursive routine expected, found %d" % len(calls)
    if ok:
        bb, t = calls[0]
        a = [ds(x) for x in w.call_arg_exprs(bb)]
        from .rules_layout import producer_chain

        def root(e):
            e = ds(e)
            while isinstance(e, tuple) and e[0] == "call" and e[1] in ("deref_mut", "deref", "as_mut_slice", "as_mut", "borrow_mut", "view_mut", "reborrow") and e[3]:
                e = ds(e[3][0])
            return e
        r0, r1, r2 = root(a[0]), root(a[1]), root(a[2])
        ok0 = isinstance(r0, tuple) and r0[:2] == ("param", 1)
        ok1 = isinstance(r1, tuple) and r1[0] == "call" and r1[1] in ("to_owned", "to_vec", "clone") and ds(r1[3][0])[:2] == ("param", 2)
        ok2 = False
        if isinstance(r2, tuple) and r2[0] == "call" and r2[1] in ("from_elem",) and len(r2[3]) == 2:
            n = ds(r2[3][1])
            ok2 = isinstance(n, tuple) and n[0] == "call" and n[1] == "len" and ds(n[3][0])[:2] == ("param", 2)
        ok = ok0 and ok1 and ok2
        detail = "whole array %s, private copy of the index list %s, values vector of indexes.len() slots %s" % (ok0, ok1, ok2)
        # the returned map pairs indexes[t] with values[t] of that same vector
        okz = False
        z = bulk_result_zip(w)
        if z is not None:
            v = ds(z[3][1])
            while isinstance(v, tuple) and v[0] == "call" and v[1] in ("into_iter", "iter", "cloned", "drain") and v[3]:
                v = ds(v[3][0])
            okz = v == r2
        # an empty map is handed back only for an empty index list (a second, unconditional or differently guarded `return
        # IndexMap::new()` drops every requested rank)
        from .rules_unsafe import bool_branch_dominating
        oke, edetail = True, "the empty map is returned only under indexes.is_empty()"
        for dd in w.reaching_defs(0, w.exits()[0], "term"):
            f = ds(w.def_expr(0, dd))
            if isinstance(f, tuple) and f[0] == "call" and f[1] in ("new", "default", "with_capacity") and z is not None:
                filled = any(callee_name(t2) in ("insert", "extend") and [ds(a2) for a2 in w.call_arg_exprs(b2)][:1] == [f] for b2, t2 in w.calls())
                if filled:
                    continue

                def is_empty_of_indexes(e):
                    e = ds(e)
                    if isinstance(e, tuple) and e[0] == "call" and e[1] == "is_empty" and e[3]:
                        return root(e[3][0])[:2] == ("param", 2)
                    if isinstance(e, tuple) and e[0] == "binop" and e[1] == "Eq":
                        l_, r_ = ds(e[2]), ds(e[3])
                        return isinstance(l_, tuple) and l_[0] == "call" and l_[1] == "len" and root(l_[3][0])[:2] == ("param", 2) and r_ == ("const", "usize", 0)
                    return False
                doms = bool_branch_dominating(w, dd[0], is_empty_of_indexes)
                if not any(x_[1] for x_ in doms):
                    oke, edetail = False, "an empty map is returned at %s without `indexes.is_empty()` being established" % w.where(dd[0], dd[1])
        ctx.ob(rule, "bulk/wrapper-empty-only-for-empty-request", oke, w.where(), edetail, what="bulk result dropped for a non-empty request")
        ctx.ob(rule, "bulk/wrapper-pairs-values", okz, w.where(),
               "the returned map zips the index list with the very values vector the recursive routine filled" if okz else
               "the values zipped into the result are not the vector passed to the recursive routine", what="bulk result pairing")
    ctx.ob(rule, "bulk/wrapper-establishes-shape", ok, w.where(),
           ("the recursive routine is entered with the whole array, a private copy of the (sorted, deduplicated, in-bounds: R12/R5) index list "
            "and one value slot per index") if ok else "not recognised: " + detail, what="bulk precondition")


def rule_r18s_selection_converse(ctx, prog, rule="R18s"):
    """converse of C16 for the two recursive selection routines: with an in-range index (single form) / with the bulk
    routine's precondition (strictly increasing, in-bounds index list, one slot per index) no path panics.  Collected by
    the same abstract executions as R24/R25: every place where those proofs continue "because otherwise it would have
    panicked" (bounds-checked indexing, slicing, split_at_mut, overflow asserts, debug assertions, an empty gen_range,
    partition_mut's own precondition, the recursive calls' preconditions) must be *entailed* by the state."""
    from .selection import SelectionProof
    from .bulkselect import BulkProof
    part = prog.method("Sort1dExt", "partition_mut")
    sel = prog.method("Sort1dExt", "get_from_sorted_mut")
    ipar = [l for l in range(1, sel.arg_count + 1) if "uint:usize" in sel.local_flags(l) and "ref" not in sel.local_flags(l)]
    from .facts import inline_calls
    from .rules_zones import helper_filter
    jobs = []
    hp = selection_helper(prog, sel) if len(ipar) == 1 else None
    hf_ = helper_filter(prog)
    sel = inline_calls(prog, sel, (lambda cb: hf_(cb) and cb.key != hp[0].key) if hp is not None else hf_)
    if hp is not None:
        spw = SelectionProof(prog, sel, part.key, {hp[0].key})
        try:
            spw.prove(ipar[0], assume_in_range=True)
            jobs.append(("get_from_sorted_mut(wrapper)", sel, spw.panic_obs, "i < len"))
        except Exception as ex:
            ctx.ob(rule, "get_from_sorted_mut/wrapper-paths", False, sel.where(), "anchor not recognised: %r" % (ex,), what="anchor not recognised")
        sel = inline_calls(prog, hp[0], helper_filter(prog))
        ipar = [hp[1]]
    if len(ipar) == 1:
        sp = SelectionProof(prog, sel, part.key, {sel.key})
        try:
            sp.prove(ipar[0], assume_in_range=True)
            jobs.append(("get_from_sorted_mut", sel, sp.panic_obs, "i < len"))
        except Exception as ex:
            ctx.ob(rule, "get_from_sorted_mut/paths", False, sel.where(), "anchor not recognised: %r" % (ex,), what="anchor not recognised")
    else:
        ctx.ob(rule, "get_from_sorted_mut/index-param", False, sel.where(), "anchor missing: index parameter", what="anchor missing")
    bulk = prog.find("sort::_get_many_from_sorted_mut_unchecked", required=False)
    if bulk is not None:
        bulk = inline_calls(prog, bulk, helper_filter(prog))
        bp = BulkProof(prog, bulk, part.key)
        try:
            res = bp.prove()
            if any(not r["ok"] and "postcondition" not in r["why"] and r["why"] for r in res):
                bad = [r for r in res if not r["ok"]][0]
                ctx.ob(rule, "bulk/paths", False, bulk.where(), "abstract execution stopped: %s" % bad["why"], what="possible panic for in-range arguments")
            jobs.append(("bulk", bulk, bp.panic_obs, "indexes strictly increasing, all < len, one value slot per index"))
        except Exception as ex:
            ctx.ob(rule, "bulk/paths", False, bulk.where(), "anchor not recognised: %r" % (ex,), what="anchor not recognised")
    total = 0
    for name, body, obs, pre in jobs:
        kinds = {}
        for kind, ok, detail in obs:
            cur = kinds.setdefault(kind, [0, []])
            cur[0] += 1
            if not ok:
                cur[1].append(detail)
        total += len(obs)
        for kind, (cnt, bad) in sorted(kinds.items()):
            ctx.ob(rule, "%s/no-panic/%s" % (name, kind), not bad, body.where(),
                   "under `%s`: all %d %s requirement(s) on the return paths are entailed by the abstract state" % (pre, cnt, kind) if not bad else
                   "under `%s` a panic is not excluded: %s" % (pre, bad[0]), what="possible panic for in-range arguments")
    ctx.floor(rule, total, 40, "panic-freedom requirements collected on the selection routines' paths")
    # the public wrapper: past the `indexes.is_empty()` return the array has at least one element (a non-empty, in-bounds index
    # list), and that is all that is known – so position 0 is the only constant position that may be read there
    w = prog.find("sort::get_many_from_sorted_mut_unchecked", required=False)
    if w is not None:
        bad = []
        n_idx = 0
        for bb, t in w.calls():
            if callee_name(t) in ("index", "index_mut") and "ndarray" in (t["callee"].get("path") or "") + str(t.get("arg_tys")):
                a = [ds(x) for x in w.call_arg_exprs(bb)]
                if len(a) == 2 and root_param(a[0]) == 1:
                    n_idx += 1
                    if a[1] != ("const", "usize", 0):
                        bad.append("array[%s] at %s" % (fmt(a[1])[:40], w.where(bb, "term")))
                        continue
                    # … and only once the request is known to be non-empty
                    from .rules_unsafe import bool_branch_dominating

                    def empty_request(e):
                        e = ds(e)
                        if isinstance(e, tuple) and e[0] == "call" and e[1] == "is_empty" and e[3]:
                            return root_param(e[3][0]) == 2
                        if isinstance(e, tuple) and e[0] == "binop" and e[1] == "Eq":
                            l_, r_ = ds(e[2]), ds(e[3])
                            return isinstance(l_, tuple) and l_[0] == "call" and l_[1] == "len" and root_param(l_[3][0]) == 2 and r_ == ("const", "usize", 0)
                        return False
                    if not any(x_[1] is False for x_ in bool_branch_dominating(w, bb, empty_request)):
                        bad.append("array[0] at %s without the request being known non-empty (an empty request on an empty array would panic)" % w.where(bb, "term"))
        ctx.ob(rule, "bulk/wrapper-reads-position-0-only", not bad, w.where(),
               "the wrapper reads the array at position 0 only (%d site(s)), which exists whenever a request is non-empty and in bounds" % n_idx if not bad else
               "the wrapper reads %s: nothing guarantees that position exists" % bad[0], what="possible panic for in-range arguments")


def root_param(e):
    e = ds(e)
    for _ in range(6):
        if isinstance(e, tuple) and e[0] == "call" and e[1] in ("deref", "deref_mut", "view", "view_mut", "reborrow") and e[3]:
            e = ds(e[3][0])
    return e[1] if isinstance(e, tuple) and e[0] == "param" else None
