"""How a routine fills a vector, independent of the idiom: `vec![a, b]` / `Vec::new()` / `with_capacity(n)`, single pushes,
`for k in range { v.push(f(k)) }` and `v.extend(range.map(|k| f(k)))` all become one ordered list of segments

    ("elems", [exprs])                         literal start (possibly empty)
    ("push",  expr, bb)                        one element appended outside any loop
    ("map",   dict(source, item, value, vbody, form, bb))
                                                 f(item) appended for every item of `source`, in its order
    ("other", name, bb)                        any other mutation (reverse, sort, truncate, insert, …)

in program (dominance) order.  The moment rules read the segments instead of looking for one spelling."""
from .facts import callee_name, ds, fmt
from . import terms as T


def _vec_literal(tb, bb):
    t = tb.term(bb)
    if not (t["k"] == "call" and "into_vec" in callee_name(t)):
        return None
    for si, s in enumerate(tb.blocks[bb]["stmts"]):
        if s["k"] == "assign" and s["dst"]["p"] and s["rv"]["k"] == "agg" and s["rv"].get("array"):
            return [tb.operand_expr(f, bb, si) for f in s["rv"]["fields"]]
    return None


def vec_locals(tb):
    return [l for l in range(len(tb.raw["locals"])) if (tb.local_ty(l) or "").startswith("std::vec::Vec<")]


def build_of(prog, tb, vec):
    """segments of the vector local `vec` of the tracked body tb, or None if its start is not a recognised constructor"""
    segs = []
    start = None
    for d in tb.defs_of(vec):
        if d[0] == "entry" or isinstance(d[1], tuple):
            continue
        if d[1] == "term":
            t = tb.term(d[0])
            nm = callee_name(t)
            lit = _vec_literal(tb, d[0])
            if lit is not None:
                start = (d[0], ("elems", [ds(x) for x in lit]))
            elif nm in ("new", "with_capacity", "default"):
                start = (d[0], ("elems", []))
        else:
            st = tb.blocks[d[0]]["stmts"][d[1]]
            rv = st["rv"]
            if rv["k"] == "use" and rv["a"]["k"] in ("move", "copy") and not rv["a"]["pl"]["p"]:
                # moved from a temporary that holds the literal / constructor result
                src = rv["a"]["pl"]["l"]
                for d2 in tb.defs_of(src):
                    if d2[0] != "entry" and d2[1] == "term":
                        lit = _vec_literal(tb, d2[0])
                        nm = callee_name(tb.term(d2[0]))
                        if lit is not None:
                            start = (d[0], ("elems", [ds(x) for x in lit]))
                        elif nm in ("new", "with_capacity", "default"):
                            start = (d[0], ("elems", []))
    if start is None:
        return None
    try:
        lp = T.Loop(tb)
        it = lp.iterator()
        loop_blocks = lp.blocks
    except Exception:
        lp, it, loop_blocks = None, None, set()
    events = []
    for d in tb.defs_of(vec):
        if d[0] == "entry" or not (isinstance(d[1], tuple) and d[1][0] == "mut"):
            continue
        bb = d[0]
        t = tb.term(bb)
        nm = callee_name(t)
        args = tb.call_arg_exprs(bb)
        if nm == "push" and len(args) == 2:
            if bb in loop_blocks and it is not None:
                il, item, iinit = it
                events.append((bb, ("map", dict(source=iinit, item=ds(item), value=ds(args[1]), vbody=tb, form="loop", bb=bb))))
            elif bb in loop_blocks:
                events.append((bb, ("other", "push in an unrecognised loop", bb)))
            else:
                events.append((bb, ("push", ds(args[1]), bb)))
        elif nm == "extend" and len(args) == 2:
            m = ds(args[1])
            ok = False
            if isinstance(m, tuple) and m[0] == "call" and m[1] == "map" and len(m[3]) == 2:
                f = ds(m[3][1])
                if isinstance(f, tuple) and f[:2] == ("agg", "closure") and f[2] in prog.bodies:
                    cb = prog.tracked(prog.bodies[f[2]])
                    events.append((bb, ("map", dict(source=m[3][0], item=("param", 2), value=ds(cb.return_expr()), vbody=cb, form="extend",
                                                    bb=bb, ups=f[3]))))
                    ok = True
            if not ok:
                events.append((bb, ("other", "extend(%s)" % fmt(m)[:40], bb)))
        elif nm in ("deref", "as_slice", "len", "is_empty", "iter", "index", "capacity", "as_ref", "borrow", "last", "first"):
            continue
        else:
            events.append((bb, ("other", nm, bb)))

    # program order: a precedes b if a dominates b, or b is reachable from a and not conversely
    def before(a, b_):
        if a == b_:
            return False
        if tb.dominates(a, b_):
            return True
        if tb.dominates(b_, a):
            return False
        return b_ in tb.reachable_from(a) and a not in tb.reachable_from(b_)
    events.sort(key=lambda e: sum(1 for o in events if before(o[0], e[0])))
    return [start[1]] + [e[1] for e in events]


def range_of(source):
    """(lo expr, hi expr, inclusive) of a range iterator expression, or None"""
    r = ds(source)
    for _ in range(4):
        if isinstance(r, tuple) and r[0] == "call" and r[1] in ("into_iter", "iter", "by_ref") and r[3]:
            r = ds(r[3][0])
    if isinstance(r, tuple) and r[0] == "call" and r[1] == "new" and "RangeInclusive" in r[2] and len(r[3]) == 2:
        return ds(r[3][0]), ds(r[3][1]), True
    if isinstance(r, tuple) and r[0] == "agg" and "Range" in str(r[1]) and len(r[3]) == 2:
        return ds(r[3][0]), ds(r[3][1]), "Inclusive" in str(r[1])
    return None


def is_item(seg, e):
    """is expression e (deep-stripped) the item of this map segment – through integer casts / From conversions?"""
    def s_(x):
        try:
            return ds(x)
        except Exception:          # canonicalised expressions (rules_terms.canon_expr) are not always in raw shape
            return x
    e = s_(e)
    for _ in range(4):
        if isinstance(e, tuple) and e[0] == "cast" and len(e) >= 3:
            e = s_(e[2])
        elif isinstance(e, tuple) and e[0] == "cast" and len(e) == 2:
            e = s_(e[1])
        elif isinstance(e, tuple) and e[0] == "call" and e[1] in ("from", "into") and len(e) > 3 and e[3]:
            e = s_(e[3][0])
    if seg["form"] == "extend":
        return isinstance(e, tuple) and e[:2] == ("param", 2)
    if e == seg["item"]:
        return True
    if isinstance(e, tuple) and e[0] == "field" and len(e) >= 3 and e[2] == "0":
        inner = s_(e[1])
        # (next(iter) as Some).0 – either the same item expression or, in canonical form, any `next` item of the loop
        return inner == seg["item"] or (isinstance(inner, tuple) and inner[0] == "downcast")
    return False
