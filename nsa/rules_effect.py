"""R4 EFFECT (DESIGN.md §4 C03): in the mutating family, caller-owned mutable array handles are only
swapped, re-viewed, traversed, handed to checked family members or to the user's callback."""
from .facts import callee_name, callee_path, fmt, strip
from .rules_layout import short, up

PERMUTE = {"swap"}
REVIEW = {"view_mut", "slice_axis_mut", "slice_axis_move", "slice_move", "slice_mut", "lanes_mut", "reborrow", "into_producer",
          "from", "and", "split_at", "index_axis_mut", "index_axis_move", "into_dimensionality", "into_dyn",
          "multi_slice_mut", "multi_slice_move", "into_iter", "axis_iter_mut", "outer_iter_mut", "rows_mut",
          "columns_mut", "axis_chunks_iter_mut", "deref_mut", "deref", "borrow_mut", "as_mut", "into", "into_view",
          "raw_dim", "len", "len_of", "is_empty", "first", "dim", "shape", "ndim", "view", "iter", "indexed_iter",
          "to_owned", "to_vec", "index", "last", "get", "sum", "fold", "clone", "into_scalar", "is_standard_layout",
          "into_shape_with_order"}
# (read-only calls above only ever see these handles when they take them by value or by unique reference)
RESHAPE_BYVALUE_ONLY = {"invert_axis", "swap_axes", "slice_collapse", "collapse_axis", "slice_axis_inplace", "merge_axes"}
TRAVERSE = {"for_each", "map_collect", "map_axis_mut", "fold", "fold_while", "par_for_each", "map_assign_into",
            "map_collect_owned"}
USER_CALLBACK = {"call_mut", "call_once", "call"}
RAW_ONLY_IN = {"as_mut_ptr": "maybe_nan::cast_view_mut", "from_shape_ptr": "maybe_nan::cast_view_mut",
               "stride_of": "maybe_nan::cast_view_mut"}
FRESH = {"from_elem", "zeros", "ones", "to_owned", "to_vec", "from_shape_vec", "from_vec", "new", "with_capacity",
         "from_shape_fn", "default", "clone", "from_iter", "collect", "into_owned", "uninit", "mapv", "map", "into_raw_vec"}

FAMILY_TRAIT_ITEMS = {
    "maybe_nan::MaybeNan::remove_nan_mut", "sort::Sort1dExt::partition_mut", "sort::Sort1dExt::get_from_sorted_mut",
    "sort::Sort1dExt::get_many_from_sorted_mut", "quantile::QuantileExt::quantiles_axis_mut",
    "quantile::QuantileExt::quantile_axis_mut", "quantile::QuantileExt::quantile_axis_skipnan_mut",
    "quantile::Quantile1dExt::quantile_mut", "quantile::Quantile1dExt::quantiles_mut",
    "maybe_nan::MaybeNanExt::map_axis_skipnan_mut",
}


def is_mut_array_handle_ty(ty):
    if ty.startswith("&ndarray::") or (ty.startswith("&") and not ty.startswith("&mut")):
        return False
    if "ArrayBase<" in ty and (ty.startswith("&mut ") or "ViewRepr<&mut" in ty or "ViewRepr<&'" in ty and "mut" in ty):
        return True
    if ty.startswith("(") and "ViewRepr<&mut" in ty:
        return True   # argument tuple of a user callback
    for k in ("LanesMut<", "AxisIterMut<", "AxisChunksIterMut<", "ndarray::iter::IterMut<", "IndexedIterMut<",
              "ExactChunksMut<", "ExactChunksIterMut<"):
        if k in ty:
            return True
    if "ndarray::Zip<" in ty and ("Mut" in ty or "&mut" in ty):
        return True
    return False


class Effect:
    def __init__(self, ctx, prog, rule="R4"):
        self.ctx = ctx
        self.prog = prog
        self.rule = rule
        self.done = {}      # (body key, frozenset(owned params)) processed
        self.family = set()
        self.n_uses = 0
        self.n_swaps = 0
        self.work = []
        self.enclosing_owned = {}   # body key -> owned params, for closures that capture from it

    def add_entry(self, body, owned_params):
        self.work.append((body, frozenset(owned_params), {}))

    def run(self):
        while self.work:
            body, owned, closure_owned = self.work.pop()
            k = (body.key, owned, tuple(sorted(closure_owned.items())))
            if k in self.done:
                continue
            self.done[k] = True
            self.family.add(body.key)
            prev = self.enclosing_owned.get(body.key)
            self.enclosing_owned[body.key] = owned if prev is None else (prev | owned)
            self.scan(body, owned, closure_owned)

    # ownership of the object behind an expression: 'owned' (caller data), 'fresh', list for Zip
    def roots(self, body, e, owned, depth=0):
        """list of (kind, root_expr, byvalue) for every array object behind handle expression e"""
        e0 = e
        for _ in range(40):
            b2, e = up(self.prog, body, e)
            if b2 is not body:
                # captured from an enclosing function: ownership is decided with that function's own owned set
                po = self.enclosing_owned.get(b2.key)
                if po is None:
                    po = frozenset(range(1, b2.arg_count + 1))   # unknown context: conservative
                sub = self.roots(b2, e, po, depth + 1) if depth < 4 else [("owned", e, False)]
                return sub
            if isinstance(e, tuple) and e[0] == "param":
                byvalue = not body.local_ty(e[1]).startswith("&")
                if body.is_closure:
                    return [("owned" if e[1] in owned else "fresh", e, byvalue)]
                return [("owned" if e[1] in owned else "other-param", e, byvalue)]
            if isinstance(e, tuple) and e[0] == "call":
                nm = e[1]
                if nm in FRESH:
                    return [("fresh", e, True)]
                if nm == "and" and len(e[3]) == 2:
                    return self.roots(body, e[3][0], owned, depth) + self.roots(body, e[3][1], owned, depth)
                if nm in ("remove_nan_mut", "cast_view_mut", "get_many_from_sorted_mut_unchecked") and e[3]:
                    e = e[3][0]
                    continue
                if (nm in REVIEW or nm in RESHAPE_BYVALUE_ONLY or nm in ("iter_mut", "zip", "unwrap", "expect", "next")) and e[3]:
                    if nm == "zip":
                        return self.roots(body, e[3][0], owned, depth) + self.roots(body, e[3][1], owned, depth)
                    e = e[3][0]
                    continue
                return [("owned", e, False)]   # unknown producer: conservative
            if isinstance(e, tuple) and e[0] in ("field", "downcast", "index"):
                e = e[1]
                continue
            if isinstance(e, tuple) and e[0] == "agg" and e[1] == "tuple":
                out = []
                for f in e[3]:
                    out += self.roots(body, f, owned, depth)
                return out
            if isinstance(e, tuple) and e[0] == "phi":
                out = []
                for d in e[3]:
                    if d[0] == "entry":
                        out.append(("owned" if d[1] in owned else "other-param", ("param", d[1], None), False))
                    elif d[0] == "partial":
                        continue
                    else:
                        de = body.def_expr(e[1], d)
                        if isinstance(strip(de), tuple) and strip(de)[0] == "phi":
                            out.append(("owned", de, False))
                        else:
                            out += self.roots(body, de, owned, depth + 1) if depth < 6 else [("owned", de, False)]
                return out or [("owned", e, False)]
            return [("owned", e, False)]
        return [("owned", e0, False)]

    def scan(self, body, owned, closure_owned):
        ctx, prog = self.ctx, self.prog
        ordinal = {}
        for bb, t in body.calls():
            nm = callee_name(t)
            args = None
            for ai, ty in enumerate(t["arg_tys"]):
                if not is_mut_array_handle_ty(ty):
                    continue
                if args is None:
                    args = body.call_arg_exprs(bb)
                rs = self.roots(body, args[ai], owned)
                if not any(k == "owned" for k, _, _ in rs):
                    continue
                self.n_uses += 1
                ordinal[nm] = ordinal.get(nm, 0) + 1
                key = "%s/%s#%d/arg%d" % (short(body.key), nm, ordinal[nm], ai)
                where = body.where(bb, "term")
                byvalue_root = all(bv for k, _, bv in rs if k == "owned")
                c = t["callee"]
                path = c.get("path") or ""
                cb = prog.local_callee_body(t)
                if nm in PERMUTE and c.get("krate") == "ndarray":
                    self.n_swaps += 1
                    ctx.ob(self.rule, key, True, where, "ArrayBase::swap on the caller's view (permutes two elements of it)")
                    continue
                if cb is not None and not cb.is_closure:
                    # family member: checked itself with this parameter caller-owned
                    self.work.append((cb, frozenset([ai + 1]) | frozenset(
                        j + 1 for j, ty2 in enumerate(t["arg_tys"]) if j != ai and is_mut_array_handle_ty(ty2) and
                        any(k == "owned" for k, _, _ in self.roots(body, args[j], owned))), {}))
                    ctx.ob(self.rule, key, True, where, "handed to family member `%s` (checked with that parameter caller-owned)" % cb.name)
                    continue
                if path in FAMILY_TRAIT_ITEMS:
                    ctx.ob(self.rule, key, True, where, "handed to trait method `%s` (every impl is a checked family entry)" % path)
                    continue
                if nm in USER_CALLBACK:
                    f = strip(args[0])
                    ctx.ob(self.rule, key, True, where, "handed to the caller's own callback (documented: the reducer receives the lane)")
                    continue
                if nm in RAW_ONLY_IN:
                    ok = body.key == RAW_ONLY_IN[nm]
                    ctx.ob(self.rule, key, ok, where, "raw access inside the audited helper (R2)" if ok else
                           "raw pointer taken from caller data outside cast_view_mut", what="raw access to caller data")
                    continue
                if nm in RESHAPE_BYVALUE_ONLY:
                    ok = byvalue_root or body.key == "maybe_nan::cast_view_mut"
                    ctx.ob(self.rule, key, ok, where, "logical re-shaping of a view handle held by value (data untouched)" if ok else
                           "`%s` on the caller's array (&mut ArrayBase): changes the caller's logical element order" % nm,
                           what="caller array reshaped in place")
                    continue
                if nm in TRAVERSE:
                    # closure argument receives elements/lanes of the producers
                    clo = None
                    for a in args:
                        sa = strip(a)
                        if isinstance(sa, tuple) and sa[0] == "agg" and sa[1] == "closure":
                            clo = sa
                    if clo is None:
                        ctx.ob(self.rule, key, False, where, "traversal `%s` over caller data with a non-closure function" % nm,
                               what="unanalysable traversal")
                        continue
                    cbody = prog.bodies.get(clo[2])
                    prods = rs if nm != "map_axis_mut" else rs[:1]
                    if nm == "fold" and len(args) >= 3:
                        # fold(init, closure): closure params (acc, elems…)
                        prods = [("fresh", None, True)] + list(prods)
                    owned_params = set()
                    for pi, (k, _, _) in enumerate(prods):
                        if k == "owned":
                            owned_params.add(pi + 2)   # closure param _1 is the environment
                    self.work.append((cbody, frozenset(owned_params), {}))
                    ctx.ob(self.rule, key, True, where, "traversed; closure `%s` checked with parameters %s caller-owned"
                           % (cbody.key.rsplit("::", 1)[-1], sorted(owned_params)))
                    continue
                if nm in REVIEW and (c.get("krate") in ("ndarray", "core", "std", "alloc", "itertools") or True):
                    ctx.ob(self.rule, key, True, where, "re-view / read of the handle (`%s`): yields a view onto the same elements" % nm)
                    continue
                ctx.ob(self.rule, key, False, where,
                       "`%s` is applied to caller-owned array data (`%s`): only swap, re-views, traversals and checked family members "
                       "may touch it – this can overwrite or move elements (not a permutation of the lane)" % (nm, fmt(args[ai])[:120]),
                       what="non-permuting write primitive on caller data")
        # stores through element references handed in as closure parameters
        for (bb, si, d) in body.stores():
            if "deref" not in [p for p in d["p"] if isinstance(p, str)]:
                continue
            base = body.local_expr(d["l"], bb, si if si != "term" else "term")
            ty = body.local_ty(d["l"])
            rs = self.roots(body, base, owned)
            if any(k == "owned" for k, _, _ in rs) and body.is_closure and self._elem_param(body, base, owned):
                self.n_uses += 1
                self.ctx.ob(self.rule, "%s/store-through/%s" % (short(body.key), fmt(strip(base))[:60]), False, body.where(bb, si),
                            "assignment through `%s`, an element reference of caller-owned data" % fmt(base),
                            what="element of caller data overwritten")

    def _elem_param(self, body, base, owned):
        b = strip(base)
        while isinstance(b, tuple) and b[0] in ("field", "downcast"):
            b = strip(b[1])
        return isinstance(b, tuple) and b[0] == "param" and b[1] in owned and body.local_ty(b[1]).startswith("&mut ") \
            and "ArrayBase" not in body.local_ty(b[1])


def rule_r4(ctx, prog, rule="R4"):
    eff = Effect(ctx, prog, rule)
    entries = []
    for tr, names in (("Sort1dExt", ["partition_mut", "get_from_sorted_mut", "get_many_from_sorted_mut"]),
                      ("QuantileExt", ["quantiles_axis_mut", "quantile_axis_mut", "quantile_axis_skipnan_mut"]),
                      ("Quantile1dExt", ["quantile_mut", "quantiles_mut"]),
                      ("MaybeNanExt", ["map_axis_skipnan_mut"])):
        for nme in names:
            entries.append(prog.method(tr, nme))
    for b in prog.bodies.values():
        if b.name == "remove_nan_mut" and " as maybe_nan::MaybeNan>" in b.key:
            entries.append(b)
    for b in entries:
        eff.add_entry(b, [1])
    eff.run()
    ctx.extras["R4_family"] = sorted(eff.family)
    ctx.floor(rule, len(eff.family), 24, "bodies in the mutating family")
    ctx.floor(rule, eff.n_swaps, 4, "swap sites on caller data")
    ctx.floor(rule, eff.n_uses, 40, "uses of caller-owned mutable handles")
    return eff
