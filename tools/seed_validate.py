#!/usr/bin/env python3
"""tools/seed_validate.py <Cnn> <k> [<Cmm> ...]: validate a sub-agent's seeded change in its scratch worktree /tmp/wt-<Cnn>
(suite passes with the change; demo fails with it and passes without it), run the named property checks (default: Cnn)
against it, and store it under /verif/seeded/<Cnn>-<k>/ (patch.diff, demo, notes, meta.json)."""
import json
import os
import shutil
import subprocess
import sys

VERIF = os.path.dirname(os.path.dirname(os.path.abspath(__file__)))
prop, k = sys.argv[1], sys.argv[2]
props = sys.argv[3:] or [prop]
wt = "/tmp/wt-%s" % prop
out = os.path.join(wt, "seed_out")
patch = os.path.join(out, "change_%s.diff" % k)
demo = os.path.join(out, "demo_%s.rs" % k)
env = dict(os.environ, CARGO_TARGET_DIR=os.path.join(wt, "target"), CARGO_NET_OFFLINE="true")


def sh(cmd, **kw):
    return subprocess.run(cmd, cwd=wt, env=env, stdout=subprocess.PIPE, stderr=subprocess.STDOUT, text=True, **kw)


def clean():
    sh(["git", "checkout", "--", "src", "tests"])
    for f in os.listdir(os.path.join(wt, "tests")):
        if f.startswith("seed_demo"):
            os.remove(os.path.join(wt, "tests", f))


clean()
meta = {"property": prop, "k": k}
r = sh(["git", "apply", "--check", patch])
if r.returncode != 0:
    print("patch does not apply:", r.stdout)
    sys.exit(1)
sh(["git", "apply", patch])
r = sh(["cargo", "test", "--offline", "--lib", "--tests"])
passed = sum(int(l.split()[3]) for l in r.stdout.splitlines() if l.startswith("test result:"))
failed = sum(int(l.split()[5]) for l in r.stdout.splitlines() if l.startswith("test result:"))
meta["suite_with_change"] = {"passed": passed, "failed": failed, "rc": r.returncode}
dname = "seed_demo_%s" % k
shutil.copy(demo, os.path.join(wt, "tests", dname + ".rs"))
r = sh(["cargo", "test", "--offline", "--test", dname])
meta["demo_with_change_rc"] = r.returncode
meta["demo_with_change_tail"] = r.stdout[-600:]
sh(["git", "checkout", "--", "src"])
r = sh(["cargo", "test", "--offline", "--test", dname])
meta["demo_without_change_rc"] = r.returncode
clean()
valid = meta["suite_with_change"]["rc"] == 0 and passed >= 116 and meta["demo_with_change_rc"] != 0 and meta["demo_without_change_rc"] == 0
meta["valid"] = valid
print("suite with change: %d passed, %d failed; demo with change rc=%d; demo without rc=%d → %s"
      % (passed, failed, meta["demo_with_change_rc"], meta["demo_without_change_rc"], "VALID" if valid else "INVALID"))
# checks
res = {}
for p in props:
    r = subprocess.run([os.path.join(VERIF, "tools", "mutant.py"), patch, "--", p], stdout=subprocess.PIPE, text=True)
    line = r.stdout.strip().splitlines()[-1] if r.stdout.strip() else ""
    res[p] = line[51:400]
    print("   check %s: %s" % (p, line[51:330]))
meta["checks"] = res
if valid:
    d = os.path.join(VERIF, "seeded", "%s-%s" % (prop, os.environ.get("SEED_AS", k)))
    os.makedirs(d, exist_ok=True)
    shutil.copy(patch, os.path.join(d, "patch.diff"))
    shutil.copy(demo, os.path.join(d, "demo.rs"))
    n = os.path.join(out, "notes_%s.md" % k)
    if os.path.exists(n):
        shutil.copy(n, os.path.join(d, "notes.md"))
    meta["what_i_ran"] = ["git apply patch.diff (scratch worktree)", "cargo test --offline --lib --tests (pinned suite, must pass)",
                          "cargo test --offline --test seed_demo (must fail with the change, pass without)",
                          "tools/mutant.py patch.diff -- " + " ".join(props)]
    json.dump(meta, open(os.path.join(d, "meta.json"), "w"), indent=1)
