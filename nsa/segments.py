"""Engine F — two-cursor segment predicates (rules R21 compaction, R22 partition).

Decides value-level postconditions of the two array-rearranging leaf functions by *checking candidate invariants*
(Houdini): facts of the form  ∀k ∈ [lo, hi): P(a[k])  and  P(a[pos])  with lo/hi/pos = (zone variable + constant) are
propagated by abstract execution of the loop-free path segments between cut points (entry, loop heads, returns) on top
of the zone invariants of Engine E; candidates not re-established on some path into a cut point are dropped until the
set is inductive; the postcondition must then follow on every path into a `return`.  Element predicates come only from
the branch conditions the code itself evaluates (`is_nan(view[x])`, `view[x] >= pivot`); `swap` is the only operation
that changes the array (C03/R4).  Sound for all array contents; nothing is executed."""
from .facts import callee_name, ds, fmt
from .zones import DBM, ZoneAnalysis, USIZE_MAX, INF

NEG = {"NAN": "NOTNAN", "NOTNAN": "NAN", "LT": "GE", "GE": "LT"}
IMPLIES = {"EQPV": {"GE"}}


def tadd(t, c):
    return (t[0], t[1] + c)


class State:
    def __init__(self, dbm, facts=None):
        self.d = dbm
        self.facts = set(facts or ())   # ('seg', lo, hi, P) | ('pt', pos, P)
        self.elem = {}    # local holding &a[pos]  -> pos term
        self.bools = {}   # bool local -> ('elem', pos, P) | ('cmp', op, a, b) | ('not', local)
        self.pending = {}  # tuple local -> (op, a, b)
        self.guarded = set()   # (('le', a_term, b_term), fact): fact holds whenever a ≤ b
        self.refto = {}        # local holding `&local` -> that local
        self.ordelem = {}      # Ordering local (or its discriminant) -> (pos, {-1: P, 0: P, 1: P})  from Ord::cmp on an element
        self.dead = False

    def copy(self):
        s = State(self.d.copy(), set(self.facts))
        s.elem = dict(self.elem)
        s.bools = dict(self.bools)
        s.pending = dict(self.pending)
        s.guarded = set(self.guarded)
        s.refto = dict(self.refto)
        s.ordelem = dict(self.ordelem)
        s.dead = self.dead
        return s

    # ---- term comparisons through the zone state
    def le(self, a, b):
        """a ≤ b"""
        return self.d.entails(a[0], b[0], b[1] - a[1])

    def lt(self, a, b):
        return self.d.entails(a[0], b[0], b[1] - a[1] - 1)

    def eq(self, a, b):
        return self.le(a, b) and self.le(b, a)

    def ne(self, a, b):
        return self.lt(a, b) or self.lt(b, a)

    def promote(self):
        """guarded facts whose guard is now entailed become facts"""
        for g, f in list(self.guarded):
            if self.le(g[1], g[2]):
                self.guarded.discard((g, f))
                if f[0] == "pt":
                    self.add_pt(f[1], f[2])
                else:
                    self.facts.add(f)

    def entails_guarded(self, g, f):
        if self.d.bottom or self.lt(g[2], g[1]):
            return True          # guard cannot hold
        if (g, f) in self.guarded:
            return True
        # assume the guard: stored guarded facts whose own guard follows become facts
        s2 = self.copy()
        a, b_ = g[1], g[2]
        s2.d.add(a[0], b_[0], b_[1] - a[1])
        if s2.d.bottom:
            return True
        s2.promote()
        if s2.dead or s2.d.bottom:
            return True
        return s2.holds_at(f[1], f[2]) if f[0] == "pt" else s2.covers(f[1], f[2], f[3])

    def holds_at(self, pos, P):
        """P(a[pos]) follows from the facts"""
        for f in self.facts:
            if f[0] == "pt" and (f[2] == P or P in IMPLIES.get(f[2], ())) and self.eq(f[1], pos):
                return True
            if f[0] == "seg" and (f[3] == P or P in IMPLIES.get(f[3], ())) and self.le(f[1], pos) and self.lt(pos, f[2]):
                return True
        return False

    def covers(self, lo, hi, P, depth=0):
        """∀k ∈ [lo,hi): P(a[k]) follows from the facts (segments and points chained left to right);
        undecided orderings between the cover front and a fact's bound are split into cases (bounded)"""
        if self._covers(lo, hi, P):
            return True
        if depth >= 2 or self.d.bottom:
            return False
        # candidate split points: lower bounds of matching segments, guards
        splits = []
        for f in self.facts:
            if f[0] == "seg" and (f[3] == P or P in IMPLIES.get(f[3], ())):
                splits.append((f[1], lo))
        for g, f in self.guarded:
            splits.append((g[1], g[2]))
        for (a, b) in splits:
            if self.le(a, b) or self.lt(b, a):
                continue
            s1 = self.copy()
            s1.d.add(a[0], b[0], b[1] - a[1])           # a ≤ b
            s1.promote()
            s2 = self.copy()
            s2.d.add(b[0], a[0], a[1] - b[1] - 1)       # b < a
            s2.promote()
            ok1 = s1.d.bottom or s1.dead or s1.covers(lo, hi, P, depth + 1)
            ok2 = s2.d.bottom or s2.dead or s2.covers(lo, hi, P, depth + 1)
            if ok1 and ok2:
                return True
        return False

    def _covers(self, lo, hi, P):
        if self.d.bottom or self.le(hi, lo):
            return True
        cover = lo
        used = set()
        for _ in range(12):
            if self.le(hi, cover):
                return True
            progressed = False
            for f in self.facts:
                if f in used:
                    continue
                ok = lambda Q: Q == P or P in IMPLIES.get(Q, ())
                if f[0] == "seg" and ok(f[3]) and self.le(f[1], cover):
                    if self.le(hi, f[2]):
                        return True          # the rest of the target lies inside this (possibly empty) segment
                    if self.le(cover, f[2]):
                        cover = f[2]
                        used.add(f)
                        progressed = True
                        break
                if f[0] == "pt" and ok(f[2]) and self.eq(f[1], cover):
                    cover = tadd(f[1], 1)
                    used.add(f)
                    progressed = True
                    break
            if not progressed:
                return False
        return self.le(hi, cover)

    def add_pt(self, pos, P):
        if self.holds_at(pos, NEG.get(P, "?")):
            self.dead = True     # contradicts what is known about this element: infeasible path
            return
        self.facts.add(("pt", pos, P))

    def shift_var(self, v, c):
        """v := v + c : every term mentioning v now means (v − c)"""
        def sh(t):
            return (t[0], t[1] - c) if t[0] == v else t
        nf = set()
        for f in self.facts:
            if f[0] == "seg":
                nf.add(("seg", sh(f[1]), sh(f[2]), f[3]))
            else:
                nf.add(("pt", sh(f[1]), f[2]))
        self.facts = nf
        ng = set()
        for g, f in self.guarded:
            g2 = (g[0], sh(g[1]), sh(g[2]))
            f2 = ("seg", sh(f[1]), sh(f[2]), f[3]) if f[0] == "seg" else ("pt", sh(f[1]), f[2])
            ng.add((g2, f2))
        self.guarded = ng
        self.elem = {k: sh(t) for k, t in self.elem.items()}
        self.bools = {k: (("elem", sh(b[1]), b[2]) if b[0] == "elem" else b) for k, b in self.bools.items()}

    def forget_var(self, v):
        """v is overwritten by something unrelated: re-express its facts through an equal variable, else drop them"""
        alias = None
        for w in self.d.vars:
            if w != v and w not in ("Z",) and self.d.get(v, w) != INF and self.d.get(w, v) != INF and self.d.get(v, w) == -self.d.get(w, v):
                alias = (w, self.d.get(v, w))    # v = w + c
                break

        def tr(t):
            if t[0] != v:
                return t
            if alias is None:
                return None
            return (alias[0], t[1] + alias[1])
        nf = set()
        for f in self.facts:
            if f[0] == "seg":
                a, b = tr(f[1]), tr(f[2])
                if a is not None and b is not None:
                    nf.add(("seg", a, b, f[3]))
            else:
                a = tr(f[1])
                if a is not None:
                    nf.add(("pt", a, f[2]))
        self.facts = nf
        ng = set()
        for g, f in self.guarded:
            a, b_ = tr(g[1]), tr(g[2])
            if a is None or b_ is None:
                continue
            if f[0] == "pt":
                p_ = tr(f[1])
                if p_ is not None:
                    ng.add(((g[0], a, b_), ("pt", p_, f[2])))
        self.guarded = ng
        self.elem = {k: tr(t) for k, t in self.elem.items() if tr(t) is not None}
        self.bools = {k: b for k, b in self.bools.items() if not (b[0] == "elem" and b[1][0] == v)}

    def swap(self, p, q):
        """a.swap(p, q) with p ≠ q known"""
        self.promote()
        self.guarded = set()
        nf = set()
        pts = []
        for f in self.facts:
            if f[0] == "seg":
                lo, hi, P = f[1], f[2], f[3]
                pieces = [(lo, hi)]
                for x in (p, q):
                    np_ = []
                    for (a, b) in pieces:
                        if self.le(b, x) or self.lt(x, a):
                            np_.append((a, b))
                        elif self.le(a, x) and self.lt(x, b):
                            np_.append((a, x))
                            np_.append((tadd(x, 1), b))
                            pts.append((x, P))
                        # undecidable overlap: drop this piece
                    pieces = np_
                for (a, b) in pieces:
                    nf.add(("seg", a, b, P))
            else:
                pts.append((f[1], f[2]))
        for pos, P in pts:
            if self.eq(pos, p):
                nf.add(("pt", q, P))
            elif self.eq(pos, q):
                nf.add(("pt", p, P))
            elif self.ne(pos, p) and self.ne(pos, q):
                nf.add(("pt", pos, P))
        self.facts = nf
        self.elem = {}


class SegmentAnalysis:
    def __init__(self, body, zones, elem_pred, recv_is_array=None, pivot_local=None, on_call=None):
        """elem_pred(call terminator, arg exprs, analysis) → (element-ref local, predicate when the call returns true) or None"""
        self.b = body
        self.za = zones
        self.elem_pred = elem_pred
        self.heads = sorted({h for h in body.live_blocks() for p in body.preds(h) if body.dominates(h, p)})
        self.returns = body.exits()
        self.cuts = set(self.heads) | set(self.returns)
        self.int_locals = set(zones.int_locals)
        self.on_call = on_call
        self.log = []

    def name(self, l):
        return "_%d" % l

    def opnd_term(self, op):
        if op["k"] == "const":
            c = op["c"]
            if "int" in c:
                return ("Z", c["int"])
            return None
        pl = op["pl"]
        if pl["p"] or pl["l"] not in self.int_locals:
            return None
        return (self.name(pl["l"]), 0)

    # ---- abstract execution of one block along a path (successor `nxt`), may fork (returns list of states)
    def exec_block(self, bb, st, nxt):
        b = self.b
        blk = b.blocks[bb]
        states = [st]
        for si, s in enumerate(blk["stmts"]):
            if s["k"] != "assign" or s["dst"]["p"]:
                continue
            l = s["dst"]["l"]
            rv = s["rv"]
            for st in states:
                self.exec_assign(st, l, rv, bb, si)
        t = blk["term"]
        k = t["k"]
        out = []
        for st in states:
            if st.dead or st.d.bottom:
                continue
            if k == "assert":
                pend = st.pending.get(t["cond"]["pl"]["l"]) if t["cond"]["k"] in ("move", "copy") else None
                if pend:
                    op, a, c = pend
                    if a and c and c[0] == "Z":
                        if op == "Sub":
                            st.d.add("Z", a[0], -(c[1] - a[1]))
                        elif op == "Add":
                            st.d.add(a[0], "Z", USIZE_MAX - c[1] - a[1])
                out.append(st)
            elif k == "call":
                out.extend(self.exec_call(st, bb, t))
            elif k == "switch":
                r = self.exec_switch(st, bb, t, nxt)
                if r is not None:
                    out.append(r)
            else:
                out.append(st)
        return [s for s in out if not s.dead and not s.d.bottom]

    def exec_assign(self, st, l, rv, bb, si):
        tf = self.za.tuple_fields
        if l in tf:
            # tuple of integers: one pseudo-variable per component
            if rv["k"] == "agg" and (not rv.get("adt") or rv.get("adt") == getattr(self.za, "struct_locals", {}).get(l)):
                for i in tf[l]:
                    x = "_%d.%d" % (l, i)
                    o = self.opnd_term(rv["fields"][i]) if i < len(rv["fields"]) else None
                    st.forget_var(x)
                    if o and o[0] == "Z":
                        st.d.assign_const(x, o[1])
                    elif o:
                        st.d.assign_var_plus(x, o[0], o[1])
                    else:
                        st.d.havoc_unsigned(x)
                return
            if rv["k"] == "use" and rv["a"]["k"] in ("move", "copy") and not rv["a"]["pl"]["p"] and rv["a"]["pl"]["l"] in tf:
                src = rv["a"]["pl"]["l"]
                for i in tf[l]:
                    x = "_%d.%d" % (l, i)
                    st.forget_var(x)
                    if i in tf[src]:
                        st.d.assign_var_plus(x, "_%d.%d" % (src, i), 0)
                    else:
                        st.d.havoc_unsigned(x)
                return
            for i in tf[l]:
                st.forget_var("_%d.%d" % (l, i))
                st.d.havoc_unsigned("_%d.%d" % (l, i))
            return
        if l in self.int_locals:
            x = self.name(l)
            if rv["k"] == "use" and rv["a"]["k"] in ("copy", "move") and len(rv["a"]["pl"]["p"]) == 1 and \
                    isinstance(rv["a"]["pl"]["p"][0], dict) and rv["a"]["pl"]["l"] in tf and rv["a"]["pl"]["p"][0].get("field") in tf[rv["a"]["pl"]["l"]]:
                st.forget_var(x)
                st.d.assign_var_plus(x, "_%d.%d" % (rv["a"]["pl"]["l"], rv["a"]["pl"]["p"][0]["field"]), 0)
                return
            if rv["k"] == "use":
                a = rv["a"]
                if a["k"] == "const" and "int" in a["c"]:
                    st.forget_var(x)
                    st.d.assign_const(x, a["c"]["int"])
                    return
                if a["k"] in ("copy", "move"):
                    pl = a["pl"]
                    if not pl["p"] and pl["l"] in self.int_locals:
                        y = self.name(pl["l"])
                        if y != x:
                            st.forget_var(x)
                            st.d.assign_var_plus(x, y, 0)
                        return
                    if len(pl["p"]) == 1 and isinstance(pl["p"][0], dict) and pl["p"][0].get("field") == 0 and pl["l"] in st.pending:
                        op, aa, cc = st.pending[pl["l"]]
                        if aa and cc and cc[0] == "Z" and op in ("Add", "Sub"):
                            c = cc[1] if op == "Add" else -cc[1]
                            y = aa[0]
                            if y == x:
                                st.shift_var(x, c + aa[1])
                                st.d.assign_var_plus(x, x, c + aa[1])
                            else:
                                st.forget_var(x)
                                st.d.assign_var_plus(x, y, c + aa[1])
                            return
            if rv["k"] == "binop" and rv["op"] in ("Add", "Sub"):
                # release profile: unchecked arithmetic – exact only where wrapping is excluded by the current state
                aa, cc = self.opnd_term(rv["a"]), self.opnd_term(rv["b"])
                if aa and cc and cc[0] == "Z" and aa[0] != "Z":
                    c = cc[1] if rv["op"] == "Add" else -cc[1]
                    safe = st.d.entails("Z", aa[0], aa[1] + c) if c < 0 else st.d.entails(aa[0], "Z", USIZE_MAX - c - aa[1])
                    if safe:
                        if aa[0] == x:
                            st.shift_var(x, c + aa[1])
                            st.d.assign_var_plus(x, x, c + aa[1])
                        else:
                            st.forget_var(x)
                            st.d.assign_var_plus(x, aa[0], c + aa[1])
                        return
            st.forget_var(x)
            st.d.havoc_unsigned(x)
            return
        if rv["k"] == "binop" and rv["op"].endswith("WithOverflow"):
            st.pending[l] = (rv["op"][:-len("WithOverflow")], self.opnd_term(rv["a"]), self.opnd_term(rv["b"]))
            return
        if rv["k"] == "binop" and rv["op"] in ("Lt", "Le", "Gt", "Ge", "Eq", "Ne"):
            a, c = self.opnd_term(rv["a"]), self.opnd_term(rv["b"])
            if a and c:
                st.bools[l] = ("cmp", rv["op"], a, c)
            else:
                st.bools.pop(l, None)
            return
        if rv["k"] == "discr" and not rv["pl"]["p"]:
            if rv["pl"]["l"] in st.ordelem:
                st.ordelem[l] = st.ordelem[rv["pl"]["l"]]
            else:
                st.ordelem.pop(l, None)
            return
        if rv["k"] == "use" and rv["a"]["k"] in ("move", "copy") and not rv["a"]["pl"]["p"] and rv["a"]["pl"]["l"] in st.ordelem:
            st.ordelem[l] = st.ordelem[rv["a"]["pl"]["l"]]
            return
        if rv["k"] == "unop" and rv["op"] == "Not" and rv["a"]["k"] in ("move", "copy") and not rv["a"]["pl"]["p"]:
            src = st.bools.get(rv["a"]["pl"]["l"])
            if src:
                st.bools[l] = ("not", src)
            return
        if rv["k"] in ("ref", "use") and "pl" in (rv if rv["k"] == "ref" else rv.get("a", {})):
            # reference / copy of an element reference keeps pointing at the same element
            pl = rv["pl"] if rv["k"] == "ref" else rv["a"]["pl"]
            base = pl["l"]
            if base in st.elem and all(p == "deref" for p in pl["p"]):
                st.elem[l] = st.elem[base]
            else:
                st.elem.pop(l, None)
            if rv["k"] == "ref" and not pl["p"]:
                st.refto[l] = base
            elif base in st.refto and all(p == "deref" for p in pl["p"]):
                st.refto[l] = st.refto[base]
            else:
                st.refto.pop(l, None)
            st.bools.pop(l, None)

    def exec_call(self, st, bb, t):
        b = self.b
        nm = callee_name(t)
        c = t["callee"]
        d = t["dst"]
        args = None
        if nm in ("index",) and (c.get("trait") or "").endswith("ops::Index") and len(t["args"]) == 2:
            pos = self.opnd_term(t["args"][1])
            args = b.call_arg_exprs(bb)
            if pos is not None and self.za.is_self_recv(args[0]):
                st.d.add(pos[0], "N", -1 - pos[1])
                if not d["p"]:
                    st.elem[d["l"]] = pos
                return [st]
        if nm == "swap" and c.get("krate") == "ndarray" and len(t["args"]) == 3:
            p, q = self.opnd_term(t["args"][1]), self.opnd_term(t["args"][2])
            if p is None or q is None:
                st.facts = set()
                return [st]
            for x in (p, q):
                st.d.add(x[0], "N", -1 - x[1])
            if st.eq(p, q):
                return [st]
            if st.ne(p, q):
                return self.swap_split(st, p, q)
            # undecided aliasing: both cases
            s1 = st.copy()
            s1.d.add(p[0], q[0], q[1] - p[1])
            s1.d.add(q[0], p[0], p[1] - q[1])
            out = [] if s1.d.bottom else [s1]
            for lt in (True, False):
                s2 = st.copy()
                if lt:
                    s2.d.add(p[0], q[0], q[1] - p[1] - 1)
                else:
                    s2.d.add(q[0], p[0], p[1] - q[1] - 1)
                if not s2.d.bottom:
                    out.extend(self.swap_split(s2, p, q))
            return out
        if self.on_call is not None:
            self.on_call(t, bb, self, st)
        # element predicates
        ep = self.elem_pred(t, bb, self, st)
        if ep is not None and not d["p"] and isinstance(ep[1], dict):
            st.ordelem[d["l"]] = ep           # (pos, {ordering value: predicate})
            return [st]
        if ep is not None and not d["p"]:
            pos, P = ep
            st.bools[d["l"]] = ("elem", pos, P)
            return [st]
        if not d["p"] and d["l"] in self.int_locals:
            x = self.name(d["l"])
            st.forget_var(x)
            if args is None:
                args = b.call_arg_exprs(bb)
            if nm in ("len", "len_of") and args and self.za.is_self_recv(args[0]):
                st.d.assign_var_plus(x, "N", 0)
            else:
                st.d.havoc_unsigned(x)
            return [st]
        if not d["p"] and "bool" in b.local_flags(d["l"]):
            if args is None:
                args = b.call_arg_exprs(bb)
            if nm == "is_empty" and args and self.za.is_self_recv(args[0]):
                st.bools[d["l"]] = ("cmp", "Eq", ("N", 0), ("Z", 0))
            else:
                st.bools.pop(d["l"], None)
            return [st]
        if not d["p"]:
            st.elem.pop(d["l"], None)
        # any other callee that receives the array mutably invalidates the facts
        for ai, ty in enumerate(t["arg_tys"]):
            if ty.startswith("&mut ") and "ArrayBase" in ty:
                st.facts = set()
        return [st]

    def swap_split(self, st, p, q, depth=0):
        """apply swap(p,q); point facts whose position is not comparable with p/q are first decided by case split"""
        st.promote()
        if depth < 3:
            for f in st.facts:
                if f[0] != "pt":
                    continue
                for x in (p, q):
                    if not st.eq(f[1], x) and not st.ne(f[1], x):
                        out = []
                        a, b_ = f[1], x
                        s_eq = st.copy()
                        s_eq.d.add(a[0], b_[0], b_[1] - a[1])
                        s_eq.d.add(b_[0], a[0], a[1] - b_[1])
                        s_lt = st.copy()
                        s_lt.d.add(a[0], b_[0], b_[1] - a[1] - 1)
                        s_gt = st.copy()
                        s_gt.d.add(b_[0], a[0], a[1] - b_[1] - 1)
                        for s2 in (s_eq, s_lt, s_gt):
                            if not s2.d.bottom:
                                out.extend(self.swap_split(s2, p, q, depth + 1))
                        return out
        st.swap(p, q)
        return [st]

    def exec_switch(self, st, bb, t, nxt):
        dsc = t["discr"]
        if dsc["k"] not in ("move", "copy") or dsc["pl"]["p"]:
            return st
        l = dsc["pl"]["l"]
        if t.get("discr_ty") == "bool":
            f = [tgt for v, tgt in t["arms"] if v == 0]
            ftgt = f[0] if f else None
            truth = None
            if nxt == t["otherwise"] and nxt != ftgt:
                truth = True
            elif nxt == ftgt and nxt != t["otherwise"]:
                truth = False
            info = st.bools.get(l)
            if info is None or truth is None:
                return st
            self.assume(st, info, truth)
            st.promote()
            return st
        if l in st.ordelem:
            pos, table = st.ordelem[l]
            norm = lambda v: -1 if v in (255, 65535, 4294967295, 18446744073709551615, -1) else v
            vals = [norm(v) for v, _ in t["arms"]]
            taken = [norm(v) for v, tgt in t["arms"] if tgt == nxt and nxt != t["otherwise"]]
            if not taken and nxt == t["otherwise"]:
                taken = [x_ for x_ in (-1, 0, 1) if x_ not in vals]
            preds = {table.get(v) for v in taken}
            if len(preds) == 1 and None not in preds:
                st.add_pt(pos, preds.pop())
                st.promote()
            return st
        if l in self.int_locals:
            x = self.name(l)
            for v, tgt in t["arms"]:
                if tgt == nxt and nxt != t["otherwise"]:
                    st.d.add(x, "Z", v)
                    st.d.add("Z", x, -v)
                    return st
            if nxt == t["otherwise"]:
                for v, _ in t["arms"]:
                    self.za.refine(st.d, ("Ne", ("var", x), ("const", v)), True)
        return st

    def assume(self, st, info, truth):
        if info[0] == "not":
            return self.assume(st, info[1], not truth)
        if info[0] == "elem":
            P = info[2] if truth else NEG.get(info[2])
            if P:
                st.add_pt(info[1], P)
            return
        if info[0] == "cmp":
            op, a, c = info[1], info[2], info[3]
            neg = {"Lt": "Ge", "Le": "Gt", "Gt": "Le", "Ge": "Lt", "Eq": "Ne", "Ne": "Eq"}
            if not truth:
                op = neg[op]
            d = st.d
            if op == "Lt":
                d.add(a[0], c[0], c[1] - a[1] - 1)
            elif op == "Le":
                d.add(a[0], c[0], c[1] - a[1])
            elif op == "Gt":
                d.add(c[0], a[0], a[1] - c[1] - 1)
            elif op == "Ge":
                d.add(c[0], a[0], a[1] - c[1])
            elif op == "Eq":
                d.add(a[0], c[0], c[1] - a[1])
                d.add(c[0], a[0], a[1] - c[1])
            elif op == "Ne":
                hi = d.get(a[0], c[0])
                lo = -d.get(c[0], a[0])
                tgt = c[1] - a[1]
                if lo == tgt:
                    d.add(c[0], a[0], -(tgt + 1))
                if hi == tgt:
                    d.add(a[0], c[0], tgt - 1)

    # ---- path segments between cut points
    def segments_from(self, start):
        """all block sequences start → … → next cut point (exclusive of re-entering start unless it is the target)"""
        b = self.b
        out = []

        def rec(bb, path):
            if len(out) > 400:
                return
            for s in b.succ(bb):
                if s in self.cuts:
                    out.append(path + [s])
                elif s in path:
                    continue
                else:
                    rec(s, path + [s])
        rec(start, [start])
        return out

    def run_path(self, path, st0):
        """abstractly execute the blocks of `path` except the last (the target cut point); returns states at the target"""
        states = [st0]
        for i, bb in enumerate(path[:-1]):
            nxt = path[i + 1]
            new = []
            for st in states:
                new.extend(self.exec_block(bb, st, nxt))
            states = new
            if not states:
                break
        return states

    def static_refs(self):
        """references that are fixed for the whole body: single-assignment locals holding `&local` (or a copy / reborrow of such
        a reference) – e.g. a `&pivot` parameter of an inlined helper – keep pointing at that local at every cut point"""
        if getattr(self, "_static_refs", None) is not None:
            return self._static_refs
        b = self.b
        defs = {}
        for bb in b.live_blocks():
            for s_ in b.blocks[bb]["stmts"]:
                if s_["k"] == "assign" and not s_["dst"]["p"]:
                    defs.setdefault(s_["dst"]["l"], []).append(s_["rv"])
            t = b.blocks[bb]["term"]
            if t["k"] == "call" and not t["dst"]["p"]:
                defs.setdefault(t["dst"]["l"], []).append({"k": "call"})
        out = {}
        changed = True
        while changed:
            changed = False
            for l, rvs in defs.items():
                if l in out or len(rvs) != 1:
                    continue
                rv = rvs[0]
                tgt = None
                if rv["k"] == "ref" and not rv["pl"]["p"] and len(defs.get(rv["pl"]["l"], [])) <= 1:
                    tgt = rv["pl"]["l"]
                elif rv["k"] in ("ref", "use"):
                    pl = rv["pl"] if rv["k"] == "ref" else rv["a"].get("pl")
                    if pl is not None and pl["l"] in out and all(x == "deref" for x in pl["p"]):
                        tgt = out[pl["l"]]
                if tgt is not None:
                    out[l] = tgt
                    changed = True
        self._static_refs = out
        return out

    def initial_state(self, cut, facts):
        d = self.za.states[cut].copy() if cut in self.za.states else DBM(self.za.vars)
        st = State(d, [f for f in facts if f[0] in ("seg", "pt")])
        st.refto = dict(self.static_refs())
        st.guarded = {(f[1], f[2]) for f in facts if f[0] == "if"}
        st.promote()
        return st

    def houdini(self, candidates_at, entry_facts=()):
        """candidates_at: {cut point: set of facts}.  Returns the inductive subset."""
        C = {c: set(fs) for c, fs in candidates_at.items()}
        changed = True
        rounds = 0
        while changed and rounds < 20:
            changed = False
            rounds += 1
            starts = [0] + [h for h in self.heads]
            for s in starts:
                facts0 = set(entry_facts) if s == 0 and s not in self.heads else C.get(s, set())
                for path in self.segments_from(s):
                    tgt = path[-1]
                    if tgt not in C:
                        continue
                    states = self.run_path(path, self.initial_state(s, facts0))
                    for st in states:
                        for f in list(C[tgt]):
                            if f[0] == "if":
                                ok = st.entails_guarded(f[1], f[2])
                            else:
                                ok = st.covers(f[1], f[2], f[3]) if f[0] == "seg" else st.holds_at(f[1], f[2])
                            if not ok:
                                C[tgt].discard(f)
                                changed = True
                                self.log.append("dropped %s at bb%d via path %s" % (show_fact(f, self), tgt, path))
        return C

    def check_post(self, C, post, entry_facts=()):
        """post(state at return, path) → list of (name, ok, detail).  Checked on every segment into a return."""
        res = []
        starts = [0] + [h for h in self.heads]
        for s in starts:
            facts0 = set(entry_facts) if s == 0 and s not in self.heads else C.get(s, set())
            for path in self.segments_from(s):
                tgt = path[-1]
                if tgt not in self.returns:
                    continue
                for st in self.run_path(path, self.initial_state(s, facts0)):
                    res.extend(post(st, path))
        return res


def check_progress(sa, C, cursors):
    """Termination argument for the cursor loops of a body (partition_mut, remove_nan_mut):
       (1) every cursor is monotone over every segment between loop heads (ghost copies of the cursors are added to the zone
           state at the segment's start and compared at its end: x_end − x_start ≥ 0 for all segments, or ≤ 0 for all);
       (2) every *back-edge* segment (its target head dominates its start) moves at least one monotone cursor strictly;
       (3) an increasing cursor is bounded above, a decreasing one below, by a loop-invariant quantity or by a cursor moving the
           other way, in the zone invariant of its loop heads.
    (1)–(3) give a measure (the distance between opposite cursors / to the bound) that is non-increasing on every segment and
    strictly decreasing on every cycle; the calls inside the loops are comparisons, swaps and indexing (terminating).
    → (ok, detail, n_segments)"""
    from .zones import INF
    b = sa.b
    segs = []
    for s in sa.heads:
        facts0 = C.get(s, set())
        for path in sa.segments_from(s):
            tgt = path[-1]
            if tgt not in sa.heads:
                continue
            st0 = sa.initial_state(s, facts0)
            for x in cursors:
                g = "G" + x
                if g not in st0.d.vars:
                    st0.d.vars.append(g)
                st0.d.add(g, x, 0)
                st0.d.add(x, g, 0)
            finals = sa.run_path(path, st0)
            finals = [st for st in finals if not st.d.bottom and not st.dead]
            if not finals:
                continue
            lo = {x: min(-st.d.get("G" + x, x) if st.d.get("G" + x, x) != INF else -INF for st in finals) for x in cursors}
            hi = {x: max(st.d.get(x, "G" + x) for st in finals) for x in cursors}
            segs.append((s, tgt, path, lo, hi))
    if not segs:
        return False, "no loop segment analysed", 0
    back = [sg for sg in segs if b.dominates(sg[1], sg[0])]
    direction = {}
    for (s, tgt, path, lo, hi) in back:
        # ranking for the loop of `tgt`: a cursor that is monotone on every segment lying inside that loop (inner loops included;
        # a helper's cursor that is re-seeded on entry to its own loop is monotone *within* it) and moves strictly on this cycle
        loop = {x for x in b.live_blocks() if b.dominates(tgt, x) and tgt in b.reachable_from(x)}
        inside = [sg for sg in segs if all(x in loop for x in sg[2])]
        strict = []
        for x in cursors:
            if all(sg[3][x] >= 0 for sg in inside) and lo[x] >= 1:
                strict.append((x, +1))
            elif all(sg[4][x] <= 0 for sg in inside) and hi[x] <= -1:
                strict.append((x, -1))
        if not strict:
            return False, ("the loop cycle bb%d → … → bb%d (through %s) moves no cursor strictly: %s" % (
                s, tgt, path, ", ".join("%s changes by [%s, %s]" % ((sa.b.local_name(int(x[1:])) or x) if x[1:].isdigit() else x, lo[x], hi[x]) for x in cursors))), len(segs)
        # … and that cursor is bounded, in the zone invariant of this loop's head, by a quantity that does not move the same way
        inv = sa.za.states.get(tgt)
        bounded = []
        for x, d_ in strict:
            if inv is None:
                continue
            same_way = {y for y in cursors if y != x and ((d_ > 0 and all(sg[3][y] >= 0 for sg in inside) and any(sg[3][y] >= 1 for sg in inside)) or
                                                          (d_ < 0 and all(sg[4][y] <= 0 for sg in inside) and any(sg[4][y] <= -1 for sg in inside)))}
            others = [v for v in inv.vars if v != x and v not in same_way]
            if (d_ > 0 and any(inv.get(x, v) != INF for v in others)) or (d_ < 0 and any(inv.get(v, x) != INF for v in others)):
                bounded.append((x, d_))
        if not bounded:
            return False, "no strictly moving cursor of the loop at bb%d is bounded in that loop head's invariant (%s)" % (
                tgt, ", ".join("%s%s" % ((sa.b.local_name(int(x[1:])) or x) if x[1:].isdigit() else x, "↑" if d_ > 0 else "↓") for x, d_ in strict)), len(segs)
        for x, d_ in bounded:
            direction.setdefault(x, d_)
    return True, "%d segments between loop heads, %d back-edge segments; monotone cursors: %s" % (
        len(segs), len(back), ", ".join("%s%s" % ((sa.b.local_name(int(x[1:])) or x if x[1:].isdigit() else x), "↑" if d_ > 0 else "↓") for x, d_ in sorted(direction.items()))), len(segs)


def show_term(t, sa):
    v = {"Z": "", "N": "len"}.get(t[0])
    if v is None:
        if "." in t[0]:
            l_, f_ = t[0][1:].split(".")
            v = "%s.%s" % (sa.b.local_name(int(l_)) or ("_" + l_), f_)
        else:
            v = sa.b.local_name(int(t[0][1:])) or t[0]
    if t[1] == 0:
        return v or "0"
    if not v:
        return str(t[1])
    return "%s%+d" % (v, t[1])


def show_fact(f, sa):
    if f[0] == "if":
        return "%s ≤ %s ⇒ %s" % (show_term(f[1][1], sa), show_term(f[1][2], sa), show_fact(f[2], sa))
    if f[0] == "seg":
        return "∀k∈[%s,%s): %s" % (show_term(f[1], sa), show_term(f[2], sa), f[3])
    return "%s(a[%s])" % (f[2], show_term(f[1], sa))
