#!/usr/bin/env python3
"""tools/gen_sweep3.py: third family – two adjacent single-line statements exchanged (`swp3`), restricted to statements with an effect
(macro guards, `?`, push/sort/dedup/swap, compound assignments, asserts).  Writes sweeps/swp3.json (multi-line `old`/`new` edits)."""
import re, os, json
SRC = "/repo/src"
EFFECT = re.compile(r"return_err|\?;|\.push\(|\.sort|\.dedup|\.swap\(|\+= |-= |\*= |assert|\.insert\(|\.extend\(|= .*\.len\(\)|\.reverse\(|mem::swap|\.truncate\(")
out = []
for root, _, files in os.walk(SRC):
    for f in sorted(files):
        if not f.endswith(".rs"):
            continue
        path = os.path.join(root, f)
        rel = os.path.relpath(path, "/repo")
        lines = open(path).read().split("\n")
        in_test = False
        for i in range(len(lines) - 1):
            a, b = lines[i], lines[i + 1]
            if a.strip().startswith("#[cfg(test)]"):
                in_test = True
            if in_test:
                break
            ia, ib = len(a) - len(a.lstrip()), len(b) - len(b.lstrip())
            sa, sb = a.strip(), b.strip()
            if ia != ib or not sa.endswith(";") or not sb.endswith(";") or sa.startswith("//") or sb.startswith("//"):
                continue
            if sa.startswith(("use ", "pub use", "type ", "const ")) or sb.startswith(("use ", "pub use", "type ", "const ")):
                continue
            if sa.count("(") != sa.count(")") or sb.count("(") != sb.count(")") or sa == sb:
                continue
            if not (EFFECT.search(sa) or EFFECT.search(sb)):
                continue
            tag = os.path.splitext(os.path.basename(rel))[0] + ("_" + os.path.basename(os.path.dirname(rel)) if f == "mod.rs" else "")
            old = a + "\n" + b
            if "\n".join(lines).count(old) != 1:
                continue
            out.append(dict(name="swp3_%s_%d" % (tag, i + 1), prop="-", file=rel, old=old, new=b + "\n" + a, nth=0, ctx="%s  ⇄  %s" % (sa[:50], sb[:50])))
json.dump(out, open("/verif/sweeps/swp3.json", "w"), indent=1)
print(len(out))
for e in out:
    print(e["file"][4:], e["name"].rsplit("_", 1)[1], e["ctx"])
