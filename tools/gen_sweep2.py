#!/usr/bin/env python3
"""tools/gen_sweep2.py: second family of mechanical operators (positional edits for tools/sweep.py):
  neg    – a non-comparison `if` / `while` condition negated
  cps    – the two parameters of a two-parameter closure exchanged
  rng    – `a..b` ↔ `a..=b`
  idx    – an index expression `[e]` becomes `[e + 1]` / slice bound moved by one
  call   – near-miss methods: floor/ceil/round, min/max, first/last, lower_index/higher_index, iter/iter().skip(1), len()/len()-1 …
Writes sweeps/<op>2.json."""
import re, os, json, sys
SRC = "/repo/src"
out = {k: [] for k in ("neg", "cps", "rng", "idx", "call")}


def code_lines(path):
    lines = open(path).read().split("\n")
    in_test = False
    for i, l in enumerate(lines):
        s = l.strip()
        if s.startswith("#[cfg(test)]"):
            in_test = True
        if in_test or s.startswith("//") or s.startswith("#[") or s.startswith("assert") or s.startswith("debug_assert"):
            continue
        code = l.split("//")[0]
        yield i + 1, code


CALLS = [(r"\.floor\(\)", ".ceil()"), (r"\.ceil\(\)", ".floor()"), (r"\.round\(\)", ".floor()"), (r"\.first\(\)", ".last()"),
         (r"\blower_index\(", "higher_index("), (r"\bhigher_index\(", "lower_index("), (r"\.iter\(\)", ".iter().skip(1)"),
         (r"\.len\(\)", ".len().saturating_sub(1)"), (r"\.len_of\(([a-z_]+)\)", None), (r"\.min\(\)", ".max()"), (r"\.max\(\)", ".min()"),
         (r"\bargmin\b", "argmax"), (r"\bmin_skipnan\(\)", "max_skipnan()"), (r"\.sum\(\)", ".product()"), (r"\.mean\(\)", ".sum().into()"),
         (r"\.into_iter\(\)", ".into_iter().rev()"), (r"\.zip\(", None), (r"\.exp\(\)", ".exp2()"), (r"\.recip\(\)", ".neg()"),
         (r"\.ok_or\(EmptyInput\)", None), (r"\bneeds_lower\(", "needs_higher("), (r"\bneeds_higher\(", "needs_lower("),
         (r"\.unwrap_or\(([^)]*)\)", None), (r"\.clone\(\)\.max\(", ".clone().min("), (r"\.powi\(2\)", ".powi(3)"),
         (r"\.mapv\(", None), (r"\bA::one\(\)", "A::zero()"), (r"\.fract\(\)", ".trunc()"), (r"\.sqrt\(\)", ".cbrt()"),
         (r"\.log2\(\)", ".ln()"), (r"\.last\(\)", ".first()"), (r"\.axis_iter\(", ".axis_iter_mut("), (r"\.ndim\(\)", ".len()"),
         (r"\.nrows\(\)", ".ncols()"), (r"\.ncols\(\)", ".nrows()"), (r"\.lanes\(", None), (r"\.outer_iter\(\)", None),
         (r"\.to_f64\(\)", None), (r"\.binary_search\(", None)]
for root, _, files in os.walk(SRC):
    for f in sorted(files):
        if not f.endswith(".rs"):
            continue
        path = os.path.join(root, f)
        rel = os.path.relpath(path, "/repo")
        tag = os.path.splitext(os.path.basename(rel))[0] + ("_" + os.path.basename(os.path.dirname(rel)) if f == "mod.rs" else "")
        for ln, code in code_lines(path):
            def add(op, c0, c1, new):
                out[op].append(dict(name="%s2_%s_%d_%d" % (op, tag, ln, c0), prop="-", file=rel, line=ln, c0=c0, c1=c1, old=code[c0:c1], new=new,
                                    ctx=code.strip()[:100]))
            # neg
            m = re.match(r"^(\s*(?:\} else |let (?:mut )?[a-z_]+ = |return )?(?:if|while) )(.+?)( \{\s*)$", code)
            if m and not m.group(2).startswith("let ") and not re.search(r"[<>]=?|==|!=", re.sub(r"<[A-Za-z_, :]*>|->|=>", "", m.group(2))):
                add("neg", m.start(2), m.end(2), "!(" + m.group(2) + ")")
            # cps
            for m in re.finditer(r"\|\s*(&?(?:mut )?[a-z_][a-z_0-9]*)\s*,\s*(&?(?:mut )?[a-z_][a-z_0-9]*)\s*\|", code):
                add("cps", m.start(), m.end(), "|%s, %s|" % (m.group(2), m.group(1)))
            for m in re.finditer(r"\|\s*\(([a-z_][a-z_0-9]*)\s*,\s*([a-z_][a-z_0-9]*)\)\s*\|", code):
                add("cps", m.start(), m.end(), "|(%s, %s)|" % (m.group(2), m.group(1)))
            # rng
            for m in re.finditer(r"(?<![.\w])([\w()+\- ]*?[\w)])?\.\.(=?)([\w(][\w().+\- ]*)?", code):
                if "..." in code[max(0, m.start() - 1):m.end() + 1] or not m.group(3):
                    continue
                dots = code.index("..", m.start())
                if m.group(2):
                    add("rng", dots, dots + 3, "..")
                else:
                    add("rng", dots, dots + 2, "..=")
            # idx
            for m in re.finditer(r"\[([a-z_][a-z_0-9]*(?: [+-] 1)?)\]", code):
                if code[m.start() - 1:m.start()].isalnum() or code[m.start() - 1:m.start()] in (")", "_"):
                    add("idx", m.start(1), m.end(1), m.group(1) + " + 1" if not m.group(1).endswith(" 1") else m.group(1)[:-4])
            for m in re.finditer(r"s!\[(\.\.)([a-z_][a-z_0-9]*)\]", code):
                add("idx", m.start(2), m.end(2), m.group(2) + " + 1")
            for m in re.finditer(r"s!\[([a-z_][a-z_0-9]*)( \+ 1)?(\.\.)\]", code):
                add("idx", m.start(1), m.start(3), m.group(1) if m.group(2) else m.group(1) + " + 1")
            # call
            for pat, new in CALLS:
                if new is None:
                    continue
                for m in re.finditer(pat, code):
                    add("call", m.start(), m.end(), new)
for op, es in out.items():
    json.dump(es, open("/verif/sweeps/%s2.json" % op, "w"), indent=1)
    print(op, len(es))
