"""R1 LAYOUT, R8 AXIS, R9 PAIR, impl-header table (DESIGN.md §4 C20; shared by C06/C09/C10/C11/C14/C18)."""
from .facts import (AnchorMissing, callee_name, callee_path, callee_resolved, fmt, is_call, strip, walk)

# ---------------------------------------------------------------------------------- helpers


def short(key):
    """stable, readable function id used in obligation keys (no line numbers)"""
    k = key
    k = k.replace("ndarray::ArrayBase<S, D>", "ArrayBase").replace("ndarray::ArrayBase<S, ndarray::Dim<[usize; 1]>>", "ArrayBase1")
    k = k.replace("ndarray::ArrayBase<S, ndarray::Dim<[usize; 2]>>", "ArrayBase2")
    return k


def up(prog, body, e):
    """follow closure captures to the expression in the enclosing (root) function.
    returns (body, expr) – expr is stripped of borrows"""
    e = strip(e)
    guard = 0
    while isinstance(e, tuple) and e and e[0] == "upvar" and body.is_closure and guard < 8:
        site = prog.closure_site(body.key)
        if site is None:
            break
        pb, bb, si, ups = site
        if e[1] >= len(ups):
            break
        body, e = pb, strip(ups[e[1]])
        guard += 1
    return body, e


# ---------------------------------------------------------------------------------- R1 LAYOUT

ND_BANNED = {
    "as_ptr", "as_mut_ptr", "stride_of", "strides", "as_slice", "as_slice_mut",
    "as_slice_memory_order", "as_slice_memory_order_mut", "as_slice_memory_order_mut_unchecked",
    "try_as_slice_memory_order_mut", "to_slice", "to_slice_memory_order",
    "into_raw_vec", "into_raw_vec_and_offset", "raw_view", "raw_view_mut", "raw_view_mut_unchecked",
    "uget", "uget_mut", "uswap", "get_ptr", "get_mut_ptr", "from_shape_ptr", "from_shape_vec_unchecked",
    "is_standard_layout", "is_contiguous", "into_shape", "into_shape_with_order", "to_shape",
    "into_shape_clone", "reshape", "f", "set_f", "from_shape_memory_order", "uninit", "assume_init",
    "as_standard_layout_unchecked", "into_dimensionality_unchecked",
}
STD_BANNED_PREFIX = (
    "std::slice::from_raw_parts", "std::slice::from_raw_parts_mut", "std::ptr::", "core::ptr::",
    "std::mem::transmute", "std::intrinsics::transmute", "std::mem::transmute_copy",
)
PTR_METHODS = {"offset", "add", "sub", "byte_add", "byte_offset", "wrapping_add", "wrapping_offset",
               "wrapping_sub", "read", "write", "read_unaligned", "write_unaligned", "copy_from",
               "copy_to", "swap", "replace"}

R1_ALLOWED_CALLERS = {
    # the single audited helper: rebuilds a 1-D view from pointer, length and stride (R2 takes over)
    "maybe_nan::cast_view_mut": "audited raw re-typing helper; its stride/pointer/length provenance is rule R2",
}


def is_banned_layout_call(t, body=None):
    c = t["callee"]
    name = c.get("name")
    if name == "default" and (c.get("trait") or "").endswith("default::Default") and body is not None:
        st = c.get("self_ty") or ""
        preds = body.raw.get("preds") or (body.prog.bodies.get(body.root).raw.get("preds") if body.root and body.root in body.prog.bodies else [])
        import re as _re
        base = st
        m_ = _re.match(r"<(\w+) as ndarray::Dimension>::Pattern$", st) or _re.match(r"(\w+)::Pattern$", st)
        if m_:
            base = m_.group(1)
        if any(p.startswith(base + ": ndarray::Dimension") for p in (preds or [])):
            return "Default::default() of the generic dimension type `%s` (for IxDyn this is the 1-D index [0], not ndim zeros)" % st
    path = c.get("resolved") or c.get("path") or ""
    krate = c.get("krate")
    if krate == "ndarray" and name in ND_BANNED:
        return "ndarray layout/raw-storage API `%s`" % name
    p2 = c.get("path") or ""
    for pre in STD_BANNED_PREFIX:
        if path.startswith(pre) or p2.startswith(pre):
            return "raw memory API `%s`" % (p2 or path)
    if name in PTR_METHODS and ("ptr::mut_ptr" in path or "ptr::const_ptr" in path or "ptr::non_null" in path
                                or "ptr::mut_ptr" in p2 or "ptr::const_ptr" in p2):
        return "raw pointer arithmetic/access `%s`" % name
    return None


def rule_r1(ctx, prog, scope=None, rule="R1"):
    """every call site of every source body; obligations only for the banned ones + a total count"""
    scanned = 0
    sites = 0
    for b in prog.bodies.values():
        if scope and not scope(b):
            continue
        scanned += 1
        ordinal = {}
        for bb, t in b.calls():
            sites += 1
            why = is_banned_layout_call(t, b)
            if why is None:
                continue
            nm = callee_name(t)
            ordinal[nm] = ordinal.get(nm, 0) + 1
            allowed = any(b.key == k or b.key.startswith(k + "::{closure") for k in R1_ALLOWED_CALLERS)
            ctx.ob(rule, "%s/%s#%d" % (short(b.key), nm, ordinal[nm]), allowed, b.where(bb, "term"),
                   ("allowed: audited helper" if allowed else
                    "%s called outside the audited helper maybe_nan::cast_view_mut: results may depend on "
                    "strides/offset/memory order" % why), what=why)
    ctx.extras.setdefault("scanned", {})[rule] = {"bodies": scanned, "call_sites": sites}
    return scanned, sites


# ---------------------------------------------------------------------------------- R8 AXIS

AXIS_TY = "ndarray::Axis"

# routines whose axis convention is part of their documented contract (constant axis allowed)
FIXED_AXIS = {
    "correlation::CorrelationExt<A, S>>::cov": {1: "columns are observations (documented)"},
    "correlation::CorrelationExt<A, S>>::pearson_correlation": {1: "columns are observations (documented)"},
    "histogram::histograms::HistogramExt<A, S>>::histogram": {0: "rows are observations (documented)"},
    "histogram::grid::GridBuilder::<B>::from_array": {1: "one strategy per column (documented)"},
}


def axis_const(e):
    """Axis(k) aggregate with constant k → k"""
    e = strip(e)
    if isinstance(e, tuple) and e[0] == "agg" and e[1] == AXIS_TY:
        f = strip(e[3][0]) if e[3] else None
        if isinstance(f, tuple) and f[0] == "const":
            return f[2]
        return "nonconst"
    return None


def axis_params(body):
    return [l for l in range(1, body.arg_count + 1) if body.local_ty(l) == AXIS_TY]


def rule_r8(ctx, prog, bodies, rule="R8"):
    """`bodies`: root functions to check (their closures are included)"""
    n_sites = 0
    for root in bodies:
        aps = axis_params(root)
        group = [root] + prog.closures_of(root)
        fixed = None
        for k, v in FIXED_AXIS.items():
            if root.key.endswith(k) or k in root.key:
                fixed = v
        ordinal = {}
        for b in group:
            for bb, t in b.calls():
                nm0 = callee_name(t)
                if nm0 in ("ncols", "nrows") and "ndarray" in (t["callee"].get("path") or "") and len(t["args"]) == 1:
                    # `a.ncols()` / `a.nrows()` on a 2-D receiver: len_of(Axis(1)) / len_of(Axis(0)) – an implicit constant axis
                    n_sites += 1
                    ordinal[nm0] = ordinal.get(nm0, 0) + 1
                    k0 = 1 if nm0 == "ncols" else 0
                    okk = fixed is not None and not aps       # a 2-D routine whose contract fixes one axis role fixes the other too
                    ctx.ob(rule, "%s/%s#%d/arg0" % (short(root.key), nm0, ordinal[nm0]), okk, b.where(bb, "term"),
                           "implicit constant Axis(%d) in a routine with documented axis roles" % k0 if okk else
                           "`%s()` fixes Axis(%d) in a routine whose axis roles are not fixed by its contract" % (nm0, k0), what="constant axis")
                    continue
                for ai, aty in enumerate(t["arg_tys"]):
                    if aty != AXIS_TY and aty != "&" + AXIS_TY:
                        continue
                    n_sites += 1
                    nm = callee_name(t)
                    ordinal[nm] = ordinal.get(nm, 0) + 1
                    key = "%s/%s#%d/arg%d" % (short(root.key), nm, ordinal[nm], ai)
                    e = b.operand_expr(t["args"][ai], bb, "term")
                    ob, oe = up(prog, b, e)
                    where = b.where(bb, "term")
                    if isinstance(oe, tuple) and oe[0] == "param" and ob is root and oe[1] in aps:
                        if len(aps) == 1 or True:
                            ctx.ob(rule, key, True, where, "axis argument is the caller's `%s` unchanged" % oe[2])
                        continue
                    k = axis_const(oe)
                    if k is not None and k != "nonconst":
                        recv_flags = []
                        if t["args"]:
                            a0 = t["args"][0]
                            if a0["k"] in ("copy", "move"):
                                recv_flags = b.local_flags(a0["pl"]["l"])
                        recv_ty = t["arg_tys"][0] if t["arg_tys"] else ""
                        is_1d = "ndarray::Dim<[usize; 1]>" in recv_ty
                        if is_1d and k == 0:
                            ctx.ob(rule, key, True, where, "constant Axis(0) on a 1-D receiver")
                            continue
                        if fixed is not None and k in fixed and not aps:
                            ctx.ob(rule, key, True, where, "constant Axis(%s): %s" % (k, fixed[k]))
                            continue
                        ctx.ob(rule, key, False, where,
                               "`%s` receives the constant Axis(%s) on a receiver of type `%s`%s: the result depends on "
                               "which axis the caller meant" % (nm, k, recv_ty,
                                                                  " although the function has an `axis` parameter" if aps else ""),
                               what="constant axis")
                        continue
                    ctx.ob(rule, key, False, where,
                           "axis argument of `%s` is `%s`, not the caller's axis parameter" % (nm, fmt(oe)),
                           what="axis not passed through")
    return n_sites


# ---------------------------------------------------------------------------------- R9 PAIR

# calls that keep the logical element order / identity of the producer they are applied to
ORDER_PRESERVING = {
    "iter", "iter_mut", "into_iter", "cloned", "copied", "by_ref", "view", "view_mut", "to_owned",
    "clone", "to_vec", "as_ref", "borrow", "deref", "deref_mut", "peekable", "fuse", "into_producer",
    "lanes", "lanes_mut", "rows", "rows_mut", "columns", "columns_mut", "axis_iter", "axis_iter_mut",
    "outer_iter", "outer_iter_mut", "indexed_iter", "indexed_iter_mut", "from", "and", "into", "aview1",
    "enumerate", "map", "mapv", "into_dyn", "reborrow", "as_slice_of_vec", "as_slice", "as_mut_slice",
    "into_values", "values", "keys", "index", "index_mut", "collect",
    "zip",      # a zip nested in a zip: its own operands are judged at its own call site
}
# `as_slice`/`index` above: only reached on Vec/slice receivers – the ndarray `as_slice*` family is
# caught by name+crate in ORDER_DISTURBING_ND below (and by R1).
ORDER_DISTURBING = {
    "rev", "skip", "step_by", "take", "skip_while", "take_while", "filter", "filter_map", "chain", "cycle",
    "t", "reversed_axes", "permuted_axes", "slice", "slice_mut", "slice_move", "slice_axis",
    "slice_axis_mut", "invert_axis", "swap_axes", "sort", "sort_unstable", "reverse", "rotate_left",
    "rotate_right", "windows", "chunks", "exact_chunks", "select", "into_shape", "to_shape",
    "into_shape_with_order", "as_slice_memory_order", "as_standard_layout", "broadcast", "diag",
    "into_diag", "index_axis", "index_axis_move", "index_axis_mut", "split_at", "merge_axes",
    "insert_axis", "remove_axis",
}
FRESH = {"zeros", "ones", "from_elem", "from_shape_vec", "from_vec", "from_shape_fn", "new", "with_capacity",
         "default", "from_shape_simple_fn", "from_iter", "range", "linspace"}
ZIP_CALLS = {"zip": "iterator zip", "and": "Zip::and", "and_broadcast": "Zip::and_broadcast", "izip": "izip"}

# (function key suffix, reason)
R9_EXEMPT = {
    "summary_statistics::means::central_moment_coefficients":
        "zips binomial coefficients with moments.rev(): the reversal is the algorithm (coefficient k pairs with "
        "moment p-k); it pairs no two API operands",
}


def producer_chain(prog, body, e, depth=0, stop_at_field=False):
    """walk a producer expression down to its root; returns (root_body, root_expr, [adaptor names], bad)
    bad = first adaptor that is not known to preserve logical order"""
    chain = []
    bad = None
    cur_body = body
    while depth < 40:
        depth += 1
        cur_body, e = up(prog, cur_body, e)
        if isinstance(e, tuple) and e[0] == "call":
            nm = e[1]
            if nm in FRESH:
                return cur_body, e, chain, bad
            chain.append(nm)
            krate_nd = e[2].startswith("ndarray::")
            if nm in ORDER_DISTURBING or (krate_nd and nm.startswith("as_slice")):
                if bad is None:
                    bad = nm
            elif nm not in ORDER_PRESERVING:
                if bad is None:
                    bad = "?" + nm
            if not e[3]:
                return cur_body, e, chain, bad
            e = e[3][0]
            continue
        if isinstance(e, tuple) and e[0] in ("field", "downcast", "index", "cast"):
            if stop_at_field and e[0] == "field":
                return cur_body, e, chain, bad
            e = e[1] if e[0] != "cast" else e[2]
            continue
        return cur_body, e, chain, bad
    return cur_body, e, chain, bad


def rule_r9(ctx, prog, bodies, rule="R9", expect_roots=None):
    """every zip-like call in `bodies` (+closures): both sides are undisturbed logical producers.
    returns list of (body, bb, [root exprs]) for further role checks"""
    out = []
    for root in bodies:
        exempt = None
        for k, why in R9_EXEMPT.items():
            if root.key.endswith(k):
                exempt = why
        group = [root] + prog.closures_of(root)
        ordinal = {}
        for b in group:
            for bb, t in b.calls():
                nm = callee_name(t)
                if nm not in ZIP_CALLS:
                    continue
                c = t["callee"]
                if nm == "and" and not (c.get("path", "").startswith("ndarray::Zip")):
                    continue
                if nm == "zip" and not (c.get("trait", "").endswith("Iterator") or "iter" in c.get("path", "").lower()):
                    continue
                ordinal[nm] = ordinal.get(nm, 0) + 1
                key = "%s/%s#%d" % (short(root.key), nm, ordinal[nm])
                where = b.where(bb, "term")
                args = b.call_arg_exprs(bb)
                if exempt:
                    ctx.ob(rule, key, True, where, "exempt: " + exempt)
                    continue
                roots = []
                ok = True
                msgs = []
                for ai, a in enumerate(args):
                    rb, re_, chain, bad = producer_chain(prog, b, a)
                    roots.append((rb, re_, chain))
                    if bad is not None:
                        ok = False
                        msgs.append("operand %d goes through `%s` (chain %s from `%s`)"
                                    % (ai, bad.lstrip("?"), "→".join(reversed(chain)), fmt(re_)))
                ctx.ob(rule, key, ok, where,
                       ("operands are the undisturbed logical producers of " +
                        ", ".join("`%s`" % fmt(r[1]) for r in roots)) if ok else
                       ("pairing is not by logical index: " + "; ".join(msgs)),
                       what="zip operand disturbed")
                out.append((root, b, bb, roots))
    return out


# ---------------------------------------------------------------------------------- impl headers

EXT_TRAITS = {
    "correlation::CorrelationExt": "ndarray::ArrayBase<S, ndarray::Dim<[usize; 2]>>",
    "deviation::DeviationExt": "ndarray::ArrayBase<S, D>",
    "entropy::EntropyExt": "ndarray::ArrayBase<S, D>",
    "histogram::histograms::HistogramExt": "ndarray::ArrayBase<S, ndarray::Dim<[usize; 2]>>",
    "maybe_nan::MaybeNanExt": "ndarray::ArrayBase<S, D>",
    "quantile::QuantileExt": "ndarray::ArrayBase<S, D>",
    "quantile::Quantile1dExt": "ndarray::ArrayBase<S, ndarray::Dim<[usize; 1]>>",
    "sort::Sort1dExt": "ndarray::ArrayBase<S, ndarray::Dim<[usize; 1]>>",
    "summary_statistics::SummaryStatisticsExt": "ndarray::ArrayBase<S, D>",
}


def rule_impl_headers(ctx, prog, rule="IMPL"):
    for tr, self_ty in EXT_TRAITS.items():
        imps = [i for i in prog.impls if i.get("trait") == tr]
        if tr not in prog.traits:
            ctx.ob(rule, "%s/exists" % tr, False, "", "anchor missing: extension trait %s not found" % tr,
                   what="anchor missing")
            continue
        ok = len(imps) == 1
        ctx.ob(rule, "%s/single-impl" % tr, ok, imps[0]["sp"]["file"] if imps else "",
               "exactly one impl" if ok else "%d impls of %s: behaviour may specialise on the representation" % (len(imps), tr),
               what="extension trait implemented %d times" % len(imps))
        for i in imps:
            st = i["self_ty"]
            generic_storage = st.startswith("ndarray::ArrayBase<S,") or st.startswith("ndarray::ArrayBase<S>")
            storage_bounds = [p for p in i["preds"] if p.startswith("S: ")]
            plain = all(p in ("S: ndarray::Data", "S: std::marker::Sized", "S: ndarray::RawData", "S: ndarray::DataMut")
                        for p in storage_bounds)
            ctx.ob(rule, "%s/generic-storage" % tr, generic_storage and plain, "%s:%s" % (i["sp"]["file"], i["sp"]["line"]),
                   "impl for `%s` with storage bounds %s" % (st, storage_bounds),
                   what="impl not generic over the storage parameter")
