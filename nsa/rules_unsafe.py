"""R2 RAWVIEW, R3 UNSAFE inventory, R11 (NotNone field), R14 RNG  (DESIGN.md §4 C04, C03)."""
from .facts import callee_name, callee_path, fmt, strip, walk
from .rules_layout import short, up


def norm_arith(e):
    """drop the dev-profile overflow tuples and integer casts: (a SubWithOverflow b).0 → a Sub b"""
    e = strip(e)
    if isinstance(e, tuple) and e[0] == "field" and e[2] == "0":
        i = strip(e[1])
        if isinstance(i, tuple) and i[0] == "binop" and i[1].endswith("WithOverflow"):
            return ("binop", i[1][:-len("WithOverflow")], norm_arith(i[2]), norm_arith(i[3]))
    if isinstance(e, tuple) and e[0] in ("field", "downcast"):
        return (e[0], norm_arith(e[1])) + e[2:]
    if isinstance(e, tuple) and e[0] == "binop":
        return ("binop", e[1], norm_arith(e[2]), norm_arith(e[3]))
    if isinstance(e, tuple) and e[0] == "cast" and e[1].startswith("IntToInt"):
        return norm_arith(e[2])
    if isinstance(e, tuple) and e[0] == "call":
        return ("call", e[1], e[2], tuple(norm_arith(a) for a in e[3]), e[4])
    if isinstance(e, tuple) and e[0] == "agg":
        return e[:3] + (tuple(norm_arith(a) for a in e[3]),) + e[4:]
    return e


def branch_dominates(body, bb_switch, taken_succ, target_bb):
    """the edge bb_switch→taken_succ dominates target_bb (every path to target goes through that edge)"""
    if not body.dominates(bb_switch, target_bb):
        return False
    # remove the edge: is target still reachable?
    seen = set()
    stack = [0]
    while stack:
        x = stack.pop()
        if x in seen:
            continue
        seen.add(x)
        for s in body.succ(x):
            if x == bb_switch and s == taken_succ:
                continue
            stack.append(s)
    # if other successors of the switch equal taken_succ (duplicate) they were skipped too – conservative
    return target_bb not in seen


def bool_branch_dominating(body, target_bb, pred):
    """find a boolean switch whose discriminant satisfies pred(expr) → returns list of (bb, truth_value_of_edge)
    such that the edge with that truth value dominates target_bb"""
    out = []
    for bb in body.live_blocks():
        t = body.term(bb)
        if t["k"] != "switch" or t.get("discr_ty") != "bool":
            continue
        de = body.switch_discr_expr(bb)
        if not pred(de):
            continue
        f = None
        for v, tgt in t["arms"]:
            if v == 0:
                f = tgt
        tr = t["otherwise"]
        if f is not None and f != tr:
            if branch_dominates(body, bb, tr, target_bb):
                out.append((bb, True, de))
            if branch_dominates(body, bb, f, target_bb):
                out.append((bb, False, de))
    return out


# ------------------------------------------------------------------------------------- R2

def rule_r2(ctx, prog, rule="R2"):
    """every from_shape_ptr: pointer, length AND stride come from one source view"""
    n = 0
    for b in prog.bodies.values():
        ordinal = 0
        for bb, t in b.calls():
            if callee_name(t) != "from_shape_ptr":
                continue
            ordinal += 1
            n += 1
            key = "%s/from_shape_ptr#%d" % (short(b.key), ordinal)
            where = b.where(bb, "term")
            args = b.call_arg_exprs(bb)
            shape, ptr = strip(args[0]), strip(args[1])
            if not (isinstance(shape, tuple) and shape[0] == "call" and shape[1] == "strides" and len(shape[3]) == 2):
                ctx.ob(rule, key, False, where,
                       "the shape argument `%s` carries no stride: the rebuilt view assumes unit stride whatever the stride of the "
                       "source view (wrong elements / out-of-view access for stepped, reversed or non-contiguous lanes)" % fmt(shape),
                       what="raw view rebuilt without the source stride")
                continue
            lens, strs = strip(shape[3][0]), strip(shape[3][1])
            if not (isinstance(lens, tuple) and lens[0] == "agg" and len(lens[3]) == 1 and
                    isinstance(strs, tuple) and strs[0] == "agg" and len(strs[3]) == 1):
                ctx.ob(rule, key, False, where, "shape/strides are not 1-element arrays: `%s`" % fmt(shape), what="unrecognised shape")
                continue
            L = norm_arith(lens[3][0])
            S = norm_arith(strs[3][0])
            # source view of the length
            if not (isinstance(L, tuple) and L[0] == "call" and L[1] in ("len_of", "len") and L[3]):
                ctx.ob(rule, key, False, where, "length `%s` is not len/len_of of a view" % fmt(L), what="length provenance")
                continue
            src = strip(L[3][0])
            # pointer provenance
            P = norm_arith(ptr)
            off = None
            for _ in range(6):
                if isinstance(P, tuple) and P[0] == "call" and P[1] == "cast" and P[3]:
                    P = strip(P[3][0])
                    continue
                if isinstance(P, tuple) and P[0] == "cast":
                    P = strip(P[2])
                    continue
                if isinstance(P, tuple) and P[0] == "call" and P[1] in ("offset", "add", "sub", "wrapping_offset") and len(P[3]) == 2:
                    if off is not None:
                        break
                    off = (P[1], norm_arith(P[3][1]))
                    P = strip(P[3][0])
                    continue
                break
            ptr_ok = isinstance(P, tuple) and P[0] == "call" and P[1] in ("as_mut_ptr", "as_ptr") and P[3] and strip(P[3][0]) == src
            if not ptr_ok:
                ctx.ob(rule, key, False, where, "pointer `%s` does not come from as_mut_ptr of the view `%s` whose length is used"
                       % (fmt(ptr), fmt(src)), what="pointer provenance")
                continue
            stride_src = ("call", "stride_of")

            def is_stride_of_src(e):
                e = strip(e)
                return isinstance(e, tuple) and e[0] == "call" and e[1] == "stride_of" and e[3] and strip(e[3][0]) == src

            detail = None
            ok = False
            if isinstance(S, tuple) and S[0] == "const":
                # stride irrelevant only when len ≤ 1
                if S[2] == 0 and off is None:
                    doms = bool_branch_dominating(b, bb, lambda de: True)
                    for (sbb, truth, de) in doms:
                        d = norm_arith(de)
                        if isinstance(d, tuple) and d[0] == "binop" and norm_arith(d[2]) == L and strip(d[3])[0] == "const":
                            c = strip(d[3])[2]
                            if (d[1] == "Le" and truth and c <= 1) or (d[1] == "Lt" and truth and c <= 2) or \
                               (d[1] == "Eq" and truth and c in (0, 1)) or (d[1] == "Gt" and not truth and c <= 1) or \
                               (d[1] == "Ge" and not truth and c <= 2):
                                ok = True
                                detail = "stride 0 only under the dominating branch `%s` = %s" % (fmt(de), truth)
                    if not ok:
                        detail = "constant stride 0 is used for views that may hold more than one element (no dominating `len <= 1` branch): " \
                                 "all elements would alias the first one"
                else:
                    detail = "constant stride %s" % (S[2],)
            elif is_stride_of_src(S):
                # non-negative stride, pointer not offset
                doms = bool_branch_dominating(b, bb, lambda de: True)
                nonneg = False
                for (sbb, truth, de) in doms:
                    d = norm_arith(de)
                    if isinstance(d, tuple) and d[0] == "binop" and is_stride_of_src(d[2]) and strip(d[3])[0] == "const" and strip(d[3])[2] == 0:
                        if (d[1] == "Ge" and truth) or (d[1] == "Lt" and not truth):
                            nonneg = True
                ok = nonneg and off is None
                detail = "stride = stride_of(src) under a dominating `stride >= 0` branch, pointer = as_mut_ptr(src)" if ok else \
                    "stride_of(src) is cast to usize without a dominating `stride >= 0` branch or with an offset pointer"
            else:
                # negated stride: pointer must be moved to the last element and the axis inverted afterwards
                neg = S
                for _ in range(4):
                    if isinstance(neg, tuple) and neg[0] == "call" and neg[1] in ("unwrap", "expect", "checked_neg", "neg", "wrapping_neg", "abs", "unsigned_abs") and neg[3]:
                        neg = strip(neg[3][0])
                        continue
                    if isinstance(neg, tuple) and neg[0] == "unop" and neg[1] == "Neg":
                        neg = strip(neg[2])
                        continue
                    break
                if is_stride_of_src(neg) and off is not None:
                    want1 = ("binop", "Mul", ("binop", "Sub", L, ("const", "usize", 1)), norm_arith(neg))
                    o = off[1]
                    sym = isinstance(o, tuple) and o[0] == "binop" and o[1] == "Mul" and (
                        (norm_arith(o[2]) == want1[2] and norm_arith(o[3]) == want1[3]) or
                        (norm_arith(o[3]) == want1[2] and norm_arith(o[2]) == want1[3]))
                    # result inverted before use
                    inv = False
                    for cbb, ct in b.calls():
                        if callee_name(ct) == "invert_axis":
                            a0 = strip(b.call_arg_exprs(cbb)[0])
                            if isinstance(a0, tuple) and a0[0] == "call" and a0[1] == "from_shape_ptr" and a0[4] == bb:
                                inv = b.dominates(bb, cbb) and cbb in b.postdominators().get(bb, set())
                    ok = sym and inv and off[0] == "offset"
                    detail = ("negative stride: pointer moved by (len-1)*stride, |stride| used, axis inverted afterwards" if ok else
                              "negative-stride idiom incomplete: offset `%s` %s (len-1)*stride, invert_axis %s"
                              % (fmt(off[1]), "==" if sym else "!=", "applied" if inv else "missing"))
                else:
                    detail = "stride `%s` is not derived from stride_of(%s)" % (fmt(S), fmt(src))
            ctx.ob(rule, key, ok, where, detail, what="raw view stride/pointer provenance")
    return n


def rule_cast_guards(ctx, prog, rule="R2"):
    """size_of/align_of equality asserts dominate the pointer cast in cast_view_mut; NotNone is repr(transparent)"""
    b = prog.find("maybe_nan::cast_view_mut")
    casts = [bb for bb, t in b.calls() if callee_name(t) in ("cast", "from_shape_ptr")]
    for which in ("size_of", "align_of"):
        found = False
        for bb in b.live_blocks():
            t = b.term(bb)
            if t["k"] != "switch":
                continue
            de = strip(b.switch_discr_expr(bb))
            if not (isinstance(de, tuple) and de[0] == "binop" and de[1] == "Eq"):
                continue
            x, y = strip(de[2]), strip(de[3])
            if not (isinstance(x, tuple) and isinstance(y, tuple) and x[0] == "call" and y[0] == "call" and x[1] == which and y[1] == which):
                continue
            ta = (b.site_term(x[4]) or {}).get("callee", {}).get("args")
            tb = (b.site_term(y[4]) or {}).get("callee", {}).get("args")
            if ta == tb or not ta or not tb:
                continue
            f = [tgt for v, tgt in t["arms"] if v == 0]
            if not f or b.can_reach_return(f[0]):
                continue
            if all(branch_dominates(b, bb, t["otherwise"], c) for c in casts) and casts:
                found = True
        ctx.ob(rule, "maybe_nan::cast_view_mut/assert-%s" % which, found, b.where(),
               "assert_eq!(%s::<T>(), %s::<U>()) dominates the pointer cast and every from_shape_ptr" % (which, which) if found else
               "no diverging `%s::<T>() == %s::<U>()` check dominates the pointer re-typing" % (which, which),
               what="layout-compatibility assert missing")
    adt = prog.adts.get("maybe_nan::NotNone")
    ok = bool(adt) and adt["transparent"]
    ctx.ob(rule, "maybe_nan::NotNone/repr-transparent", ok, "%s:%s" % (adt["sp"]["file"], adt["sp"]["line"]) if adt else "",
           "NotNone<T> is repr(transparent) over Option<T>" if ok else
           "NotNone<T> is not repr(transparent): three unsafe sites reinterpret Option<T> as NotNone<T> and the layouts are no longer guaranteed equal",
           what="repr(transparent) missing")
    if adt:
        fields = adt["variants"][0]["fields"]
        okf = len(fields) == 1 and not fields[0]["public"] and fields[0]["ty"].startswith("std::option::Option<")
        ctx.ob(rule, "maybe_nan::NotNone/private-field", okf, "", "single private field of type Option<T>" if okf else
               "NotNone's payload field is public or not an Option: the not-None invariant can be broken from outside",
               what="invariant field exposed")


# ------------------------------------------------------------------------------------- R3

def is_source_unsafe(u):
    if u["source"] != "UserProvided":
        return False
    exp = u["sp"].get("exp")
    if exp and not exp.get("local"):
        return False   # unsafe inside an external macro (ndarray's s![]) is that crate's obligation
    return True


def rule_r3(ctx, prog, rule="R3"):
    blocks = [u for u in prog.unsafe_blocks if is_source_unsafe(u)]
    per_owner = {}
    for u in blocks:
        per_owner.setdefault(u["owner"], []).append(u)
    n = 0
    for owner, us in sorted(per_owner.items()):
        b = prog.bodies.get(owner)
        name = b.name if b else owner
        in_module = owner.startswith("maybe_nan::") or " as maybe_nan::MaybeNan>" in owner
        for i, u in enumerate(us):
            n += 1
            key = "%s/unsafe#%d" % (short(owner), i + 1)
            where = "%s:%s" % (u["sp"]["file"], u["sp"]["line"])
            if not in_module or b is None:
                ctx.ob(rule, key, False, where, "unsafe block outside module maybe_nan (not in the audited inventory)",
                       what="unaudited unsafe block")
                continue
            ok, detail = audit_unsafe(prog, b, name)
            ctx.ob(rule, key, ok, where, detail, what="unsafe block without its justifying guard")
    for b in prog.bodies.values():
        if b.raw.get("unsafe_fn"):
            n += 1
            ok = b.key == "maybe_nan::cast_view_mut"
            ctx.ob(rule, "%s/unsafe-fn" % short(b.key), ok, b.where(),
                   "audited unsafe fn (callers checked by R3, body by R2)" if ok else "unsafe fn not in the audited inventory",
                   what="unaudited unsafe fn")
    # callers of cast_view_mut: only the MaybeNan::remove_nan_mut impls
    cv = prog.find("maybe_nan::cast_view_mut")
    for (cb, bb) in prog.callers().get(cv.key, []):
        ok = cb.name == "remove_nan_mut" and " as maybe_nan::MaybeNan>" in cb.key
        ctx.ob(rule, "%s/calls-cast_view_mut" % short(cb.key), ok, cb.where(bb, "term"),
               "caller is a MaybeNan::remove_nan_mut impl" if ok else "cast_view_mut called from an unaudited function",
               what="unaudited caller of cast_view_mut")
    return n


def audit_unsafe(prog, b, name):
    if name == "remove_nan_mut":
        # the re-typed view must be the *result of the generic compaction* of the input, never the input itself
        calls = [(bb, t) for bb, t in b.calls() if callee_name(t) in ("cast_view_mut", "from_shape_ptr")]
        if not calls:
            return False, "no re-typing call found in an unsafe remove_nan_mut"
        for bb, t in calls:
            if callee_name(t) != "cast_view_mut":
                return False, "re-types the view by hand (`%s`) instead of the audited cast_view_mut" % callee_name(t)
            a = strip(b.call_arg_exprs(bb)[0])
            ok = isinstance(a, tuple) and a[0] == "call" and a[1] == "remove_nan_mut" and a[2] == "maybe_nan::remove_nan_mut" \
                and a[3] and strip(a[3][0]) == ("param", 1, b.local_name(1))
            if not ok:
                return False, "cast_view_mut is applied to `%s`, not to the compacted view remove_nan_mut(view): " \
                              "NaN/None elements would be typed as not-NaN" % fmt(a)
        return True, "cast_view_mut(remove_nan_mut(view)): only the NaN-free prefix is re-typed"
    if name == "try_as_not_nan":
        # the pointer cast to NotNone must sit on the false branch of is_none(self) / true branch of is_some
        from .rules_unsafe import bool_branch_dominating
        casts = []
        for bb, si, s in b.assigns():
            rv = s["rv"]
            if rv["k"] == "cast" and "NotNone" in rv["ty"] and rv["kind"].startswith("PtrToPtr"):
                casts.append((bb, si))
        if not casts:
            # `self.is_some().then(|| unsafe { cast })`: the cast lives in a closure that only runs when self is Some
            for c in prog.closures_of(b):
                ccasts = [(bb, si) for bb, si, s in c.assigns() if s["rv"]["k"] == "cast" and "NotNone" in s["rv"]["ty"] and s["rv"]["kind"].startswith("PtrToPtr")]
                if not ccasts:
                    continue
                tg = then_guard(prog, c)
                if tg is None or tg[0] is not b:
                    return False, "the cast to NotNone sits in a closure that is not the body of `cond.then(..)` in this function"
                _parent, cond, neg = tg
                okc = isinstance(cond, tuple) and cond[0] == "call" and cond[3] and strip(cond[3][0])[:2] == ("param", 1) and \
                    ((cond[1] == "is_some" and not neg) or (cond[1] == "is_none" and neg))
                if not okc:
                    return False, "`self as *const NotNone<_>` runs under `%s`, not under self.is_some()" % fmt(cond)[:60]
                return True, "cast to &NotNone only inside `self.is_some().then(..)`"
        if not casts:
            return False, "no pointer cast to NotNone found"
        for bb, si in casts:
            good = False
            for (sbb, truth, de) in bool_branch_dominating(b, bb, lambda d: True):
                d = strip(de)
                if isinstance(d, tuple) and d[0] == "call" and d[3] and strip(d[3][0]) == ("param", 1, b.local_name(1)):
                    if (d[1] == "is_none" and truth is False) or (d[1] == "is_some" and truth is True):
                        good = True
            if not good:
                # `match self { None => None, Some(_) => <cast> }`: the cast sits on the Some arm of a switch on *self's discriminant
                for sb in b.live_blocks():
                    st = b.term(sb)
                    if st["k"] != "switch":
                        continue
                    de = strip(b.switch_discr_expr(sb))
                    if isinstance(de, tuple) and de[0] == "discr":
                        base = strip(de[1])
                        for _ in range(3):
                            if isinstance(base, tuple) and base[0] in ("deref", "ref"):
                                base = strip(base[1])
                        if isinstance(base, tuple) and base[:2] == ("param", 1):
                            some_t = [tgt for v, tgt in st["arms"] if v == 1]
                            none_t = [tgt for v, tgt in st["arms"] if v == 0]
                            if some_t and branch_dominates(b, sb, some_t[0], bb):
                                good = True
                            elif none_t and not some_t and st["otherwise"] != none_t[0] and branch_dominates(b, sb, st["otherwise"], bb):
                                good = True
            if not good:
                return False, "`self as *const NotNone<_>` is not guarded by `self.is_none()` being false: a None would be handed out as NotNone"
        return True, "cast to &NotNone only on the branch where self.is_none() is false"
    if name == "from_not_nan_ref_opt":
        adt = prog.adts.get("maybe_nan::NotNone")
        ok = bool(adt and adt["transparent"])
        return ok, "&NotNone<T> → &Option<T> is sound because NotNone is repr(transparent)" if ok else "NotNone is not repr(transparent)"
    if name in ("unwrap", "deref", "deref_mut"):
        # unreachable_unchecked only in the None arm of a match on self.0
        sites = [(bb, t) for bb, t in b.calls() if callee_name(t) == "unreachable_unchecked"]
        if not sites:
            return False, "no unreachable_unchecked found"
        for bb, t in sites:
            good = False
            for sb in b.live_blocks():
                st = b.term(sb)
                if st["k"] != "switch":
                    continue
                de = strip(b.switch_discr_expr(sb))
                if isinstance(de, tuple) and de[0] == "discr":
                    f = strip(de[1])
                    if isinstance(f, tuple) and f[0] == "field" and f[2] == "0" and strip(f[1])[0] == "param" and strip(f[1])[1] == 1:
                        none_t = [tgt for v, tgt in st["arms"] if v == 0]
                        if none_t and none_t[0] == bb:
                            good = True
            if not good:
                return False, "unreachable_unchecked is not confined to the None arm of `match self.0`"
        return True, "unreachable_unchecked only in the None arm of `match self.0` (excluded by the NotNone invariant, R11)"
    return False, "unsafe block in `%s` is not in the audited table" % name


# ------------------------------------------------------------------------------------- R11 (NotNone)

def then_guard(prog, b):
    """b is the closure of `cond.then(|| ..)`: it only runs when cond is true → (parent body, deep-stripped cond expression,
    negated?) or None"""
    if not b.is_closure:
        return None
    site = prog.closure_site(b.key)
    if site is None:
        return None
    parent = site[0]
    me = ("agg", "closure", b.key)
    for cbb, ct in parent.calls():
        if callee_name(ct) != "then":
            continue
        args = parent.call_arg_exprs(cbb)
        if len(args) == 2 and isinstance(strip(args[1]), tuple) and strip(args[1])[:3] == me:
            cond = strip(args[0])
            neg = False
            while isinstance(cond, tuple) and cond[0] == "unop" and cond[1] == "Not":
                neg = not neg
                cond = strip(cond[2])
            return parent, cond, neg
    return None


def rule_r11_notnone(ctx, prog, rule="R11"):
    n = 0
    for b in prog.bodies.values():
        exp = b.raw.get("sp", {}).get("exp")
        derive = bool(exp and "Derive" in exp.get("kind", ""))
        for bb, si, s in b.assigns():
            rv = s["rv"]
            if not (rv["k"] == "agg" and rv.get("adt") == "maybe_nan::NotNone"):
                continue
            n += 1
            key = "%s/NotNone-construction" % short(b.key)
            where = b.where(bb, si)
            if derive:
                ctx.ob(rule, key, True, where, "derived Clone/Copy: copies an existing NotNone")
                continue
            payload = strip(b.operand_expr(rv["fields"][0], bb, si))
            if isinstance(payload, tuple) and payload[0] == "agg" and payload[1] == "std::option::Option" and payload[2] == "Some":
                ctx.ob(rule, key, True, where, "payload is Some(_) by construction")
                continue
            # a copy of the payload of an existing NotNone (hand-written Clone/Copy): `NotNone(self.0.clone())` with self: &NotNone<T> –
            # what the derive expands to; Clone of a Some is a Some
            pc = payload
            for _ in range(3):
                if isinstance(pc, tuple) and pc[0] == "call" and pc[1] in ("clone", "copied", "cloned") and len(pc[3]) == 1:
                    pc = strip(pc[3][0])
                elif isinstance(pc, tuple) and pc[0] in ("ref", "deref"):
                    pc = strip(pc[1])
            if isinstance(pc, tuple) and pc[0] == "field" and str(pc[2]) == "0" and pc is not payload:
                base = strip(pc[1])
                for _ in range(3):
                    if isinstance(base, tuple) and base[0] in ("ref", "deref"):
                        base = strip(base[1])
                if isinstance(base, tuple) and base[0] == "param" and "maybe_nan::NotNone<" in (b.raw["locals"][base[1]].get("ty") or ""):
                    ctx.ob(rule, key, True, where, "payload is a clone of the payload of an existing NotNone (hand-written Clone)")
                    continue
            good = False
            for (sbb, truth, de) in bool_branch_dominating(b, bb, lambda d: True):
                d = strip(de)
                if isinstance(d, tuple) and d[0] == "call" and d[3] and strip(d[3][0]) == payload:
                    if (d[1] == "is_some" and truth is True) or (d[1] == "is_none" and truth is False):
                        good = True
            if not good:
                # match value { Some(..) => NotNone(value) }
                for sb in b.live_blocks():
                    st = b.term(sb)
                    if st["k"] == "switch":
                        de = strip(b.switch_discr_expr(sb))
                        if isinstance(de, tuple) and de[0] == "discr" and strip(de[1]) == payload:
                            some_t = [tgt for v, tgt in st["arms"] if v == 1]
                            if some_t and branch_dominates(b, sb, some_t[0], bb):
                                good = True
            if not good:
                # `value.as_ref()?; Some(NotNone(value))`: the Continue side of `?` on a view of the payload (as_ref / as_mut / a clone keeps
                # Some-ness) dominates the construction
                for sb in b.live_blocks():
                    st = b.term(sb)
                    if st["k"] != "switch":
                        continue
                    de = strip(b.switch_discr_expr(sb))
                    if not (isinstance(de, tuple) and de[0] == "discr"):
                        continue
                    br = strip(de[1])
                    if not (isinstance(br, tuple) and br[0] == "call" and br[1] == "branch" and br[3]):
                        continue
                    v_ = strip(br[3][0])
                    for _ in range(3):
                        if isinstance(v_, tuple) and v_[0] == "call" and v_[1] in ("as_ref", "as_mut", "as_deref", "clone", "cloned", "copied") and len(v_[3]) == 1:
                            v_ = strip(v_[3][0])
                        elif isinstance(v_, tuple) and v_[0] in ("ref", "deref"):
                            v_ = strip(v_[1])
                    if v_ == payload:
                        cont = [tgt for v2, tgt in st["arms"] if v2 == 0]
                        if cont and branch_dominates(b, sb, cont[0], bb):
                            good = True
            if not good:
                # `value.is_some().then(|| NotNone(value))`: the constructing closure runs only when the captured value is Some
                tg = then_guard(prog, b)
                if tg is not None:
                    parent, cond, neg = tg
                    from .rules_layout import up as _up
                    pb_, pe_ = _up(prog, b, payload)
                    if isinstance(cond, tuple) and cond[0] == "call" and cond[3] and strip(cond[3][0]) == strip(pe_) and pb_ is parent:
                        good = (cond[1] == "is_some" and not neg) or (cond[1] == "is_none" and neg)
            ctx.ob(rule, key, good, where, "payload `%s` is known Some on every path to the construction" % fmt(payload) if good else
                   "NotNone built from `%s` without a dominating is_some()/Some-arm check: the not-None invariant "
                   "that unreachable_unchecked relies on can be broken" % fmt(payload), what="NotNone built from unchecked Option")
    # no method lends &mut Option<T> (the field) out
    for b in prog.bodies.values():
        if (b.raw.get("impl_self") or "").startswith("maybe_nan::NotNone<") and not b.is_closure:
            out = b.raw.get("output", "")
            bad = out.startswith("&mut std::option::Option<")
            if bad:
                ctx.ob(rule, "%s/lends-mut-option" % short(b.key), False, b.where(),
                       "returns &mut Option<T>: callers could store None in a NotNone", what="invariant field lent mutably")
    return n


# ------------------------------------------------------------------------------------- R14

def _draw_uses(b, bb, me, arr):
    """every use of the drawn value `me` in body b: (all uses are the pivot argument of partition_mut on `arr`, count)"""
    uses_ok = True
    n_uses = 0

    def flows(a):
        """direct data flow of the drawn value (not through partition_mut's own result)"""
        a = strip(a)
        if a is me or a == me:
            return True
        if not isinstance(a, tuple):
            return False
        if a[0] == "call":
            if a[1] == "partition_mut":
                return False
            return any(flows(x) for x in a[3])
        if a[0] == "agg":
            return any(flows(x) for x in a[3])
        if a[0] == "binop":
            return flows(a[2]) or flows(a[3])
        if a[0] in ("unop", "cast"):
            return flows(a[2])
        if a[0] in ("field", "downcast", "index", "discr"):
            return flows(a[1])
        return False
    for cbb, ct in b.calls():
        if cbb == bb:
            continue
        for ai, a in enumerate(b.call_arg_exprs(cbb)):
            if flows(a):
                n_uses += 1
                if not (callee_name(ct) == "partition_mut" and ai == 1 and strip(a) == me and
                        strip(b.call_arg_exprs(cbb)[0]) == arr):
                    uses_ok = False
    for sbb in b.live_blocks():
        st = b.term(sbb)
        if st["k"] == "switch" and flows(b.switch_discr_expr(sbb)):
            uses_ok = False
    return uses_ok, n_uses


def rule_r14(ctx, prog, rule="R14"):
    """randomness only feeds partition_mut's pivot argument, range 0..len of the same array"""
    n = 0
    view = getattr(prog, "_inl_view", None) is prog
    for b in prog.bodies.values():
        if view and prog.new_helper(b) and any(b.key in (getattr(o, "inlined_from", None) or ()) for o in prog.bodies.values()):
            continue        # a private helper that is read in place in every routine calling it: judged there
        for bb, t in b.calls():
            c = t["callee"]
            if c.get("krate") not in ("rand", "rand_core", "rand_chacha"):
                continue
            nm = callee_name(t)
            n += 1
            in_sort = b.key.startswith("sort::") or " as sort::Sort1dExt<" in b.key
            if not in_sort:
                ctx.ob(rule, "%s/%s" % (short(b.key), nm), False, b.where(bb, "term"),
                       "randomness used outside the selection routines: results would not be deterministic", what="randomness elsewhere")
                continue
            if nm == "thread_rng":
                ctx.ob(rule, "%s/thread_rng" % short(b.key), True, b.where(bb, "term"), "generator handle, used by gen_range only")
                continue
            if nm == "gen_range":
                args = b.call_arg_exprs(bb)
                rng = strip(args[1])
                me = b.call_expr(bb)
                lo = hi = None
                if isinstance(rng, tuple) and rng[0] == "agg" and rng[1] == "std::ops::Range":
                    lo, hi = strip(rng[3][0]), strip(rng[3][1])
                lo_ok = lo is not None and lo[0] == "const" and lo[2] == 0
                # a private helper `fn draw(n) -> usize { rng.gen_range(0..n) }`: judge its call sites instead
                sites = [(b, bb, me, hi)]
                via = ""
                if lo_ok and isinstance(hi, tuple) and hi[0] == "param" and not b.key.endswith("partition_mut"):
                    rets = [strip(b.def_expr(0, dd)) for dd in b.reaching_defs(0, b.exits()[0], "term")] if b.exits() else []
                    callers = prog.callers().get(b.key, [])
                    if rets and all(r is me or r == me for r in rets) and callers and "{closure" not in b.key:
                        sites = []
                        via = " (through the helper `%s`)" % short(b.key)
                        for (cb_, cbb_) in callers:
                            cargs = cb_.call_arg_exprs(cbb_)
                            sites.append((cb_, cbb_, cb_.call_expr(cbb_), strip(cargs[hi[1] - 1]) if hi[1] - 1 < len(cargs) else None))
                ok = lo_ok
                why = ""
                for (sb, sbb, sme, shi) in sites:
                    in_sort_site = sb.key.startswith("sort::") or " as sort::Sort1dExt<" in sb.key
                    arr = None
                    ok_range = False
                    if isinstance(shi, tuple) and shi[0] == "call" and shi[1] == "len":
                        ok_range = True
                        arr = strip(shi[3][0])
                    uses_ok, n_uses = _draw_uses(sb, sbb, sme, arr)
                    if not (in_sort_site and ok_range and uses_ok and n_uses >= 1):
                        ok = False
                        why = "in `%s`: range upper bound `%s`, %d use(s)" % (short(sb.key), fmt(shi) if shi is not None else "?", n_uses)
                ctx.ob(rule, "%s/gen_range" % short(b.key), ok, b.where(bb, "term"),
                       "pivot drawn from 0..len(array) and used only as partition_mut's pivot on that array%s" % via if ok else
                       "random value has range `%s` / flows somewhere other than the pivot argument of partition_mut %s" % (fmt(rng), why),
                       what="randomness influences more than the pivot")
                continue
            ctx.ob(rule, "%s/%s" % (short(b.key), nm), False, b.where(bb, "term"), "unexpected rand API `%s`" % nm, what="randomness")
    return n
