"""Engine D — kernel terms (DESIGN.md §2.4): symbolic extraction of what an arithmetic kernel computes, from MIR.

T-terms (tuples):  ('sym', name) ('num', v) ('add', a, b) ('sub', a, b) ('mul', a, b) ('div', a, b) ('neg', a)
                   ('fn', name, a[, b]) ('pow', a, n) ('ite', ('cmp', op, a, b), t, f) ('sum', inner, nprod) ('len',)
                   ('opaque', text)
Skeletons recognised: iterator fold with closure, `for` loop over an iterator (recurrence), Zip…for_each with captured
accumulators, map/mapv(closure) followed by sum/mean, whole-array sum/mean/len.  Nothing is evaluated on data; sympy
(python3-vt) is only asked whether two extracted terms are the same polynomial/rational/elementary expression.
"""
import json
import os
import subprocess
import sys

from .facts import Body, callee_name, ds, fmt, strip, walk
from .rules_layout import up
from .paths import enumerate_paths, NotLoopFree, resolve_phi


class Unrecognised(Exception):
    pass


BIN = {"add": "add", "sub": "sub", "mul": "mul", "div": "div"}
ASSIGN = {"add_assign": "add", "sub_assign": "sub", "mul_assign": "mul", "div_assign": "div"}
IDENT = {"clone", "to_f64", "unwrap", "expect", "into", "from", "deref", "to_owned", "borrow", "as_ref", "raw",
         "from_usize", "from_u8", "from_u16", "from_u32", "from_u64", "from_f64", "from_i32", "to_usize", "copied", "cloned",
         "from_f32", "to_f32", "from_usize_unchecked", "unwrap_unchecked", "const_raw", "n64", "new", "unchecked_new"}
FN1 = {"fract", "abs", "ln", "exp", "sqrt", "recip", "log10", "log2", "ln_1p", "exp_m1", "signum", "floor", "ceil", "round", "sin", "cos"}
MIR_BIN = {"Add": "add", "Sub": "sub", "Mul": "mul", "Div": "div"}
CMPS = {"eq": "==", "ne": "!=", "lt": "<", "le": "<=", "gt": ">", "ge": ">=",
        "Eq": "==", "Ne": "!=", "Lt": "<", "Le": "<=", "Gt": ">", "Ge": ">="}


class Kernel:
    """term construction in the context of one body; `leaf(e)` decides the symbol of a non-arithmetic leaf"""

    def __init__(self, prog, body, leaf):
        self.prog = prog
        self.body = body
        self.leaf = leaf

    def term(self, e, depth=0):
        if depth > 60:
            raise Unrecognised("term too deep")
        e = ds(e)
        lf = self.leaf(e)
        if lf is not None:
            return lf
        if not isinstance(e, tuple):
            raise Unrecognised(str(e))
        op = e[0]
        T = lambda x: self.term(x, depth + 1)
        if op == "const":
            v = e[2]
            if isinstance(v, bool):
                return ("num", int(v))
            if isinstance(v, (int, float)):
                return ("num", v)
            raise Unrecognised("constant %r" % (v,))
        if op == "mut":
            c = e[1]
            if c[0] == "call" and c[1] in ASSIGN and e[2] == 0:
                return (ASSIGN[c[1]], T(c[3][0]), T(c[3][1]))
            raise Unrecognised("mutation by `%s`" % (c[1] if c[0] == "call" else c[0]))
        if op == "call":
            nm, args = e[1], e[3]
            if nm == "<indirect>" and isinstance(e[4], int):
                # a call through a function pointer whose value is a known function item (`round: fn(N64) -> N64` given
                # `N64::floor`): the call of that function
                try:
                    t_ = self.body.site_term(e[4])
                    f_ = ds(self.body.place_expr(t_["callee"]["pl"], e[4], "term"))
                    for _ in range(3):
                        if isinstance(f_, tuple) and f_[0] == "cast":
                            f_ = ds(f_[2])
                    if isinstance(f_, tuple) and f_[0] == "fn":
                        nm = f_[1].rsplit("::", 1)[-1]
                except Exception:
                    pass
            # a closure value handed to a helper and called there:  f()  with f a ("closureval", key, captures, kernel)
            if nm in ("call_once", "call_mut", "call") and args:
                f = self.leaf(ds(args[0]))
                if f is None and isinstance(ds(args[0]), tuple) and ds(args[0])[0] == "fn":
                    f = ("fnval", ds(args[0])[1].rsplit("::", 1)[-1])        # a function item called as a value (after inlining)
                if f is None and isinstance(ds(args[0]), tuple) and ds(args[0])[:2] == ("agg", "closure"):
                    a0_ = ds(args[0])
                    f = ("closureval", a0_[2], a0_[3], self)                  # a closure value called where it was passed (after inlining)
                if isinstance(f, tuple) and f and f[0] == "fnval":
                    # a function item passed as a value (`<N64 as Float>::floor`) and called here
                    actual = ds(args[1]) if len(args) > 1 else None
                    if f[1] in FN1 and isinstance(actual, tuple) and actual[0] == "agg" and len(actual[3]) == 1:
                        return ("fn", f[1], T(actual[3][0]))
                    raise Unrecognised("function value `%s`" % f[1])
                if isinstance(f, tuple) and f and f[0] == "closureval":
                    cb = self.prog.bodies.get(f[1])
                    if cb is None:
                        raise Unrecognised("closure body not found")
                    actual = ds(args[1]) if len(args) > 1 else None
                    ps = {}
                    if isinstance(actual, tuple) and actual[0] == "agg":
                        for i_, a_ in enumerate(actual[3]):
                            ps[2 + i_] = T(a_)
                    outer, ups = f[3], f[2]
                    ret, updates = closure_terms(self.prog, cb, ps, upvar_leaf=lambda u: outer.term(ups[u[1]]), kernel_cls=type(self))
                    if updates or ret is None:
                        raise Unrecognised("closure argument with side effects")
                    return ret
            # a private helper of the crate: its value as a decision tree over its own branches, closure arguments kept
            # symbolic until the helper calls them
            hb = self.prog.bodies.get(e[2]) if isinstance(e[2], str) else None
            if hb is not None and not hb.is_closure and hb.key not in self.prog.exported and depth < 40 and \
                    any(isinstance(ds(a), tuple) and ds(a)[:2] == ("agg", "closure") for a in args):
                ps = {}
                for i_, a_ in enumerate(args):
                    a2 = ds(a_)
                    if isinstance(a2, tuple) and a2[:2] == ("agg", "closure"):
                        ps[i_ + 1] = ("closureval", a2[2], a2[3], self)
                    else:
                        ps[i_ + 1] = T(a_)
                ret, updates = closure_terms(self.prog, hb, ps, kernel_cls=type(self))
                if updates or ret is None:
                    raise Unrecognised("helper `%s` is not a pure value" % nm)
                return ret
            if nm in BIN and len(args) == 2:
                return (BIN[nm], T(args[0]), T(args[1]))
            if nm == "neg" and len(args) == 1:
                return ("neg", T(args[0]))
            if nm in ("saturating_sub", "wrapping_sub") and len(args) == 2:
                return ("sub", T(args[0]), T(args[1]))     # equal to a − b on the domain a ≥ b the callers use
            if nm in ("saturating_add", "wrapping_add") and len(args) == 2:
                return ("add", T(args[0]), T(args[1]))
            if nm in ("zero",) and not args:
                return ("num", 0)
            if nm in ("one",) and not args:
                return ("num", 1)
            if nm in FN1 and len(args) == 1:
                return ("fn", nm, T(args[0]))
            if nm == "powi" and len(args) == 2:
                n = ds(args[1])
                if n[0] == "const" and isinstance(n[2], int):
                    return ("pow", T(args[0]), n[2])
                return ("fn2", "powi", T(args[0]), T(args[1]))
            if nm == "powf" and len(args) == 2:
                return ("fn2", "powf", T(args[0]), T(args[1]))
            if nm == "mul_add" and len(args) == 3:
                return ("add", ("mul", T(args[0]), T(args[1])), T(args[2]))
            if nm in ("max", "min") and len(args) == 2:
                return ("fn2", nm, T(args[0]), T(args[1]))
            if nm in IDENT and len(args) >= 1:
                return T(args[0])
            if nm in ("log10",) and len(args) == 1:
                return ("fn", "log10", T(args[0]))
            if hb is not None and not hb.is_closure and hb.key not in self.prog.exported and depth < 40:
                # a straight-line private helper (one return expression, no branch): read in place at expression level – its
                # parameters are replaced by the caller's argument expressions, so `n_elements(self)` is `self.len() as f64` *of
                # the caller's self* (arrays are not scalar terms and cannot be passed as such)
                try:
                    # the mutation-tracked body: a helper that updates its (by-value) parameters with `+=` returns the *updated*
                    # values – read from the untracked body they would silently be the incoming ones
                    thb = self.prog.tracked(hb) if hasattr(self.prog, "tracked") else hb
                    hret = ds(thb.return_expr())
                    straight = not any(isinstance(x_, tuple) and x_ and x_[0] == "phi" for x_ in walk(hret)) and \
                        not any(hb.term(b_)["k"] == "switch" for b_ in hb.live_blocks())
                except Exception:
                    straight = False
                if straight:
                    from .rules_guard import subst as _esubst
                    return T(_esubst(hret, {i_ + 1: a_ for i_, a_ in enumerate(args)}))
                # any other private helper of the crate: its value as a decision tree over its own branches
                ps = {i_ + 1: T(a_) for i_, a_ in enumerate(args)}
                ret, updates = closure_terms(self.prog, hb, ps, kernel_cls=type(self))
                if not updates and ret is not None:
                    return ret
            raise Unrecognised("operator `%s` (%s)" % (nm, e[2]))
        if op == "binop":
            o = e[1]
            if o.endswith("WithOverflow"):
                raise Unrecognised("overflow tuple used as a value")
            if o in MIR_BIN:
                return (MIR_BIN[o], T(e[2]), T(e[3]))
            if o in CMPS:
                return ("cmp", CMPS[o], T(e[2]), T(e[3]))
            raise Unrecognised("binop " + o)
        if op == "field" and e[2] == "0":
            i = e[1]
            if isinstance(i, tuple) and i[0] == "binop" and i[1].endswith("WithOverflow"):
                return (MIR_BIN[i[1][:-len("WithOverflow")]], T(i[2]), T(i[3]))
            if isinstance(i, tuple) and i[0] == "downcast" and len(i) > 2 and i[2] in ("Some", "Ok", "Continue"):
                # the payload on the arm where the Option / Result is Some / Ok: `match x.mean() { Some(m) => g(m), .. }`
                return T(i[1])
        if op == "unop" and e[1] == "Neg":
            return ("neg", T(e[2]))
        if op == "agg" and e[1] == "tuple" and e[3]:
            # a tuple of values (the state of a fold carried as a tuple): component-wise terms
            return ("tuple",) + tuple(T(x) for x in e[3])
        if op == "cast":
            # a cast to a narrow integer type keeps only the low bits: it is not the identity on the quantities the formulas
            # range over (element counts up to usize::MAX) – `len as u32` is a different function than `len`
            if len(e) > 3 and str(e[1]).startswith("IntToInt") and str(e[3]) in ("u8", "u16", "u32", "i8", "i16", "i32"):
                return ("fn", "as_%s" % e[3], T(e[2]))
            return T(e[2])
        raise Unrecognised("expression `%s`" % fmt(e)[:100])

    def cond(self, e):
        e = ds(e)
        neg = False
        while isinstance(e, tuple) and e[0] == "unop" and e[1] == "Not":
            neg = not neg
            e = e[2]
        if isinstance(e, tuple) and e[0] == "call" and e[1] in CMPS and len(e[3]) == 2:
            c = ("cmp", CMPS[e[1]], self.term(e[3][0]), self.term(e[3][1]))
        elif isinstance(e, tuple) and e[0] == "binop" and e[1] in CMPS:
            c = ("cmp", CMPS[e[1]], self.term(e[2]), self.term(e[3]))
        else:
            raise Unrecognised("condition `%s`" % fmt(e)[:80])
        if neg:
            inv = {"==": "!=", "!=": "==", "<": ">=", ">=": "<", ">": "<=", "<=": ">"}
            c = ("cmp", inv[c[1]], c[2], c[3])
        return c


class TypedKernel(Kernel):
    """keeps the numeric conversions that Kernel treats as identities (as ('conv', name, term))"""
    KEEP = ("to_f64", "from_f64", "to_f32", "from_f32")

    def term(self, e, depth=0):
        e2 = ds(e)
        if isinstance(e2, tuple) and e2[0] == "call" and e2[1] in self.KEEP and e2[3]:
            lf = self.leaf(e2)
            if lf is not None:
                return lf
            return ("conv", e2[1], self.term(e2[3][0], depth + 1))
        if isinstance(e2, tuple) and e2[0] == "call" and e2[1] == "raw" and "noisy_float" in str(e2[2]) and len(e2[3]) == 1:
            # N64::raw() is the f64 the checked float wraps: the same value `.to_f64().unwrap()` yields
            return ("conv", "to_f64", self.term(e2[3][0], depth + 1))
        return Kernel.term(self, e, depth)


def closure_function(prog, cbody, param_syms, upvar_leaf=None, kernel_cls=None, extra=None):
    """(return term, {upvar index: updated-value term}) of a loop-free closure body, as nested ite over its branches.
    param_syms: {param local: T-term or callable(expr)->T}.  Mutations of captured `&mut` accumulators are returned
    as updates (at most one per path)."""
    tb = prog.tracked(cbody)

    def leaf(e):
        if isinstance(e, tuple) and e[0] == "param" and e[1] in param_syms:
            return param_syms[e[1]]
        if isinstance(e, tuple) and e[0] == "field":
            # tuple-pattern parameters: p.0, p.0.1 …
            path = []
            x = e
            while isinstance(x, tuple) and x[0] == "field":
                path.append(x[2])
                x = x[1]
            if isinstance(x, tuple) and x[0] == "param":
                key = (x[1],) + tuple(reversed(path))
                if key in param_syms:
                    return param_syms[key]
        if isinstance(e, tuple) and e[0] == "upvar":
            if upvar_leaf is not None:
                return upvar_leaf(e)
            return ("sym", "^%s" % (e[2] or e[1]))
        if extra is not None:
            return extra(tb, e)
        return None

    K = (kernel_cls or Kernel)(prog, tb, leaf)
    try:
        paths = enumerate_paths(tb)
    except NotLoopFree as ex:
        raise Unrecognised("closure with a loop: %s" % ex)

    # per path: return term and upvar updates
    def path_effects(decisions, rd):
        ups = {}
        # stores through upvars and &mut-upvar calls along the path blocks
        blocks_on_path = []
        # reconstruct the block sequence from decisions is not needed: scan all blocks dominated… simpler: walk again
        return ups

    results = []
    unit = tb.local_ty(0) == "()"
    for pi in paths:
        decisions, rd, asserts = pi
        ret = K.term(resolve_phi(tb, tb.def_expr(0, rd), pi.blocks)) if (rd is not None and not unit) else None
        results.append((decisions, ret))
    # upvar updates: collect per block, then attribute to paths by membership
    upd_sites = []   # (bb, upvar idx, term)
    for (bb, si, d) in tb.stores():
        base = ds(tb.local_expr(d["l"], bb, si))
        if isinstance(base, tuple) and base[0] == "upvar" and "deref" in [p for p in d["p"] if isinstance(p, str)]:
            s = tb.blocks[bb]["stmts"][si]
            upd_sites.append((bb, base[1], ("raw", tb.rvalue_expr(s["rv"], bb, si))))
    for bb, t in tb.calls():
        nm = callee_name(t)
        if nm in ASSIGN:
            a = [ds(x) for x in tb.call_arg_exprs(bb)]
            if isinstance(a[0], tuple) and a[0][0] == "upvar":
                upd_sites.append((bb, a[0][1], ("rawassign", ASSIGN[nm], a[0], a[1])))
    return K, tb, paths, results, upd_sites


def decision_tree(K, tb, items):
    """items: [(decisions, value)] → nested ite term; all decisions must be boolean switches"""
    if len(items) == 1 and not items[0][0]:
        return items[0][1]
    if any(not d for d, _ in items):
        raise Unrecognised("inconsistent branching")
    first = items[0][0][0]
    bb = first[0]
    if any(d[0][0] != bb for d, _ in items):
        raise Unrecognised("paths do not share their first branch")
    cond = K.cond(first[1])
    tside, fside = [], []
    for d, v in items:
        val = d[0][2]
        truth = (val != 0) if not isinstance(val, tuple) else True   # ('not',[0]) = true side
        if isinstance(val, tuple) and val[0] == "not" and 0 not in val[1]:
            raise Unrecognised("non-boolean switch")
        (tside if truth else fside).append((d[1:], v))
    if not tside or not fside:
        raise Unrecognised("one-sided branch")
    tt = decision_tree(K, tb, tside)
    ft = decision_tree(K, tb, fside)
    if tt == ft:
        return tt
    return ("ite", cond, tt, ft)


def blocks_of_path(tb, decisions):
    """set of blocks on the path described by its decisions (loop-free body)"""
    dec = {d[0]: d[2] for d in decisions}
    seen = []
    bb = 0
    for _ in range(len(tb.blocks) + 2):
        seen.append(bb)
        t = tb.term(bb)
        k = t["k"]
        if k == "return":
            break
        if k == "switch":
            v = dec.get(bb)
            nxt = None
            if isinstance(v, tuple):
                nxt = t["otherwise"]
            else:
                for val, tgt in t["arms"]:
                    if val == v:
                        nxt = tgt
            if nxt is None:
                break
            bb = nxt
            continue
        ss = tb.succ(bb)
        if not ss:
            break
        bb = ss[0]
    return set(seen)


def closure_terms(prog, cbody, param_syms, upvar_leaf=None, kernel_cls=None, extra=None):
    """→ (return_term or None, {upvar idx: update term as ite-tree (identity = ('keep',))})"""
    K, tb, paths, results, upd_sites = closure_function(prog, cbody, param_syms, upvar_leaf, kernel_cls=kernel_cls, extra=extra)
    ret = None
    if results and all(r is not None for _, r in results):
        ret = decision_tree(K, tb, [(d, r) for d, r in results])
    updates = {}
    for u in sorted({s[1] for s in upd_sites}):
        items = []
        for pi in paths:
            decisions = pi[0]
            blks = set(pi.blocks)
            here = [s for s in upd_sites if s[1] == u and s[0] in blks]
            if len(here) > 1:
                raise Unrecognised("accumulator updated twice on one path")
            if not here:
                items.append((decisions, ("keep",)))
                continue
            raw = here[0][2]
            if raw[0] == "raw":
                val = K.term(resolve_phi(tb, raw[1], pi.blocks))
            else:
                val = (raw[1], K.term(resolve_phi(tb, raw[2], pi.blocks)), K.term(resolve_phi(tb, raw[3], pi.blocks)))
            items.append((decisions, val))
        updates[u] = decision_tree(K, tb, items)
    return ret, updates


# ------------------------------------------------------------------------------------------------ sympy bridge

SYMPY_SCRIPT = r'''
import json, sys
import sympy as sp
req = json.load(sys.stdin)
syms = {}
def S(n):
    if n not in syms:
        syms[n] = sp.Symbol(n, positive=True)
    return syms[n]
FN = {"ln": sp.log, "exp": sp.exp, "sqrt": sp.sqrt, "abs": sp.Abs, "recip": lambda a: 1/a,
      "log10": lambda a: sp.log(a)/sp.log(10), "log2": lambda a: sp.log(a)/sp.log(2)}
def conv(t):
    k = t[0]
    if k == "sym": return S(t[1])
    if k == "num":
        v = t[1]
        return sp.Integer(v) if isinstance(v, int) else sp.nsimplify(v)
    if k == "add": return conv(t[1]) + conv(t[2])
    if k == "sub": return conv(t[1]) - conv(t[2])
    if k == "mul": return conv(t[1]) * conv(t[2])
    if k == "div": return conv(t[1]) / conv(t[2])
    if k == "neg": return -conv(t[1])
    if k == "pow": return conv(t[1]) ** int(t[2])
    if k == "fn":
        if t[1] in FN: return FN[t[1]](conv(t[2]))
        return sp.Function(t[1])(conv(t[2]))
    if k == "real":   # symbol without sign assumption
        if t[1] not in syms: syms[t[1]] = sp.Symbol(t[1], real=True)
        return syms[t[1]]
    raise ValueError("cannot convert " + str(t)[:80])
out = []
for q in req:
    try:
        a, b = conv(q["a"]), conv(q["b"])
        d = sp.simplify(sp.expand(a - b))
        if d != 0:
            # logarithm laws only where the declared sign assumptions justify them (no force)
            d = sp.simplify(sp.expand_log(sp.expand(a - b), force=False))
        out.append({"equal": bool(d == 0), "a": str(a), "b": str(b), "diff": str(d)})
    except Exception as ex:
        out.append({"equal": False, "error": repr(ex)})
json.dump(out, sys.stdout)
'''


def to_json(t):
    if isinstance(t, tuple):
        return [to_json(x) for x in t]
    return t


def sympy_equal(pairs):
    """pairs: [(termA, termB)] → [dict(equal, a, b, diff)] decided by sympy in the tooling venv (python3-vt)"""
    if not pairs:
        return []
    req = [{"a": to_json(a), "b": to_json(b)} for a, b in pairs]
    exe = "python3-vt"
    p = subprocess.run([exe, "-c", SYMPY_SCRIPT], input=json.dumps(req), stdout=subprocess.PIPE, stderr=subprocess.PIPE,
                       text=True, env=dict(os.environ, PYTHONWARNINGS="ignore"))
    if p.returncode != 0:
        raise Unrecognised("sympy bridge failed: " + p.stderr[-400:])
    return json.loads(p.stdout)


def subst_t(t, m):
    """substitute symbols in a T-term"""
    if not isinstance(t, tuple):
        return t
    if t[0] == "sym" and t[1] in m:
        return m[t[1]]
    return tuple(subst_t(x, m) if isinstance(x, tuple) else x for x in t)


def show(t):
    if not isinstance(t, tuple):
        return str(t)
    k = t[0]
    if k == "sym":
        return t[1]
    if k == "num":
        return str(t[1])
    if k in ("add", "sub", "mul", "div"):
        return "(%s %s %s)" % (show(t[1]), {"add": "+", "sub": "-", "mul": "*", "div": "/"}[k], show(t[2]))
    if k == "neg":
        return "-" + show(t[1])
    if k == "pow":
        return "%s^%s" % (show(t[1]), t[2])
    if k == "fn":
        return "%s(%s)" % (t[1], show(t[2]))
    if k == "fn2":
        return "%s(%s, %s)" % (t[1], show(t[2]), show(t[3]))
    if k == "cmp":
        return "%s %s %s" % (show(t[2]), t[1], show(t[3]))
    if k == "ite":
        return "if %s {%s} else {%s}" % (show(t[1]), show(t[2]), show(t[3]))
    if k == "keep":
        return "unchanged"
    return str(t)


def canon_op(t):
    """operational normal form: identical up to commutativity of + and * (no other rewriting)"""
    if not isinstance(t, tuple):
        return t
    k = t[0]
    if k in ("add", "mul"):
        a, b = canon_op(t[1]), canon_op(t[2])
        if repr(a) > repr(b):
            a, b = b, a
        return (k, a, b)
    return tuple(canon_op(x) if isinstance(x, tuple) else x for x in t)


# ------------------------------------------------------------------------------------------------ loops

class Loop:
    """the single natural loop of a (tracked) body: header, blocks, carried variables with init/step expressions"""

    def __init__(self, tb):
        self.tb = tb
        live = tb.live_blocks()
        backs = [(p, h) for h in live for p in tb.preds(h) if tb.dominates(h, p)]
        heads = sorted({h for _, h in backs})
        if len(heads) != 1:
            raise Unrecognised("%d loops (exactly one expected)" % len(heads))
        self.header = heads[0]
        self.back = [p for p, h in backs if h == self.header]
        if len(self.back) != 1:
            raise Unrecognised("%d back edges" % len(self.back))
        self.back = self.back[0]
        h = self.header
        self.blocks = {b for b in tb.reachable_from(h) if h in tb.reachable_from(b)}
        # carried variables: locals with a definition inside the loop that reaches the header
        self.carried = {}
        tb._reaching()
        rd = tb._rd_in.get(h, {})
        for l, defs in rd.items():
            inside = [d for d in defs if d[0] != "entry" and d[0] != "partial" and d[0] in self.blocks]
            outside = [d for d in defs if d not in inside]
            if inside and outside:
                self.carried[l] = (outside, inside)

    def head_phi(self, l):
        return self.tb.local_expr(l, self.header, 0)

    def init_expr(self, l):
        outside, _ = self.carried[l]
        if len(outside) != 1:
            raise Unrecognised("loop variable with %d initial definitions" % len(outside))
        return self.tb.def_expr(l, outside[0])

    def step_expr(self, l):
        return self.tb.local_expr(l, self.back, "term")

    def iterator(self):
        """(iter local, item expr, iterator init expr) for `for x in it` loops, else None"""
        for bb in sorted(self.blocks):
            t = self.tb.term(bb)
            if t["k"] == "call" and callee_name(t) == "next":
                a = t["args"][0]
                e = ds(self.tb.operand_expr(a, bb, "term"))
                if isinstance(e, tuple) and e[0] == "phi" and e[1] in self.carried:
                    item = ("field", ("downcast", self.tb.call_expr(bb), "Some"), "0")
                    return e[1], item, self.init_expr(e[1])
        # `while let Some(x) = v.pop()`: the elements of the vector v, last to first  ≙  v.into_iter().rev()
        for bb in sorted(self.blocks):
            t = self.tb.term(bb)
            if t["k"] == "call" and callee_name(t) == "pop" and t["args"]:
                v = ds(self.tb.operand_expr(t["args"][0], bb, "term"))
                base = v
                while isinstance(base, tuple) and base[0] == "phi":
                    # the vector itself is loop-carried only through `pop`'s own mutation
                    outs = [d for d in base[3] if d[0] not in self.blocks]
                    if len(outs) != 1:
                        break
                    base = ds(self.tb.def_expr(base[1], outs[0]))
                if isinstance(base, tuple) and base[0] == "param":
                    item = ("field", ("downcast", self.tb.call_expr(bb), "Some"), "0")
                    init = ("call", "rev", "<pop loop>", (("call", "into_iter", "<pop loop>", (base,), None),), None)
                    return None, item, init
        return None

    def exit_condition(self):
        """(bb, discr expr, value that stays in the loop) of the switch that leaves the loop"""
        for bb in sorted(self.blocks):
            t = self.tb.term(bb)
            if t["k"] == "switch":
                succs = self.tb.succ(bb)
                out = [s for s in succs if s not in self.blocks]
                if out:
                    return bb, self.tb.switch_discr_expr(bb), [s for s in succs if s in self.blocks]
        return None


def item_symbols(item_expr, structure):
    """map sub-fields of the loop/closure item to element symbols: structure is a nested tuple tree of symbol names,
    e.g. ('e0','e1') for zip(a,b) items, 'e0' for a plain iterator"""
    out = {}

    def go(e, st):
        if isinstance(st, str):
            out[ds(e)] = ("sym", st)
            return
        for i, sub in enumerate(st):
            go(("field", e, str(i)), sub)
    go(item_expr, structure)
    return out


def zip_structure(prog, body, it, counter=None):
    """iterator expression → (structure tree of element symbols, [producer root exprs])"""
    if counter is None:
        counter = [0]
    e = ds(it)
    for _ in range(12):
        if isinstance(e, tuple) and e[0] == "call" and e[1] in ("into_iter", "iter", "by_ref", "cloned", "copied", "view", "into_producer") and e[3]:
            inner = ds(e[3][0])
            if isinstance(inner, tuple) and inner[0] == "call" and inner[1] in ("zip", "into_iter", "iter", "by_ref", "cloned", "copied", "enumerate"):
                e = inner
                continue
            break
        break
    if isinstance(e, tuple) and e[0] == "call" and e[1] == "zip" and len(e[3]) == 2:
        s0, p0 = zip_structure(prog, body, e[3][0], counter)
        s1, p1 = zip_structure(prog, body, e[3][1], counter)
        return (s0, s1), p0 + p1
    if isinstance(e, tuple) and e[0] == "call" and e[1] == "enumerate" and len(e[3]) == 1:
        # (position, item): the position counts the items of the inner traversal from 0 in its own order
        s0, p0 = zip_structure(prog, body, e[3][0], counter)
        return ("#pos", s0), p0
    name = "e%d" % counter[0]
    counter[0] += 1
    from .rules_layout import producer_chain
    rb, re_, chain, bad = producer_chain(prog, body, it, stop_at_field=True)
    if bad is not None:
        raise Unrecognised("producer goes through `%s`" % bad)
    return name, [(rb, ds(re_))]
