"""Acyclic path enumeration of a loop-free MIR body with branch decisions and per-path return expression,
and a tiny evaluator for integer/boolean expressions over named symbols (used to compare an extracted decision
tree with a specification table over a small complete domain — the *extracted tree* is evaluated, never the crate)."""
from .facts import ds, fmt, strip


class NotLoopFree(Exception):
    pass


def enumerate_paths(body, limit=4000):
    """yield (decisions, ret_def, asserts) for every entry→return path;
    decisions = [(bb, discr_expr, value)] where value is the arm value or ('not', [values]) for otherwise;
    asserts = [(bb, cond_expr, expected)] passed on the way (dev-profile overflow checks)"""
    out = []

    def rec(bb, seen, decisions, last_def, asserts):
        if len(out) > limit:
            raise NotLoopFree("too many paths")
        if bb in seen:
            raise NotLoopFree("cycle through bb%d" % bb)
        seen = seen | {bb}
        blk = body.blocks[bb]
        for si, s in enumerate(blk["stmts"]):
            if s["k"] == "assign" and s["dst"]["l"] == 0 and not s["dst"]["p"]:
                last_def = (bb, si)
        t = blk["term"]
        k = t["k"]
        if k == "return":
            out.append((decisions, last_def, asserts))
            return
        if k == "call":
            if t["dst"]["l"] == 0 and not t["dst"]["p"]:
                last_def = (bb, "term")
            if t.get("target") is None:
                return
            rec(t["target"], seen, decisions, last_def, asserts)
            return
        if k == "switch":
            succs = body.succ(bb)
            de = body.switch_discr_expr(bb)
            vals = [v for v, _ in t["arms"]]
            for v, tgt in t["arms"]:
                if tgt in succs:
                    rec(tgt, seen, decisions + [(bb, de, v)], last_def, asserts)
            if t["otherwise"] in succs and body.term(t["otherwise"])["k"] != "unreachable":
                rec(t["otherwise"], seen, decisions + [(bb, de, ("not", vals))], last_def, asserts)
            return
        if k == "assert":
            rec(t["target"], seen, decisions, last_def,
                asserts + [(bb, body.operand_expr(t["cond"], bb, "term"), t["expected"])])
            return
        for s in body.succ(bb):
            rec(s, seen, decisions, last_def, asserts)

    rec(0, frozenset(), [], None, [])
    return out


class CannotEval(Exception):
    pass


def evaluate(e, env, sym):
    """env: symbol name → int; sym(expr) → symbol name or None (called on deep-stripped sub-expressions)"""
    e = ds(e)
    name = sym(e)
    if name is not None:
        if name not in env:
            raise CannotEval("unbound %s" % name)
        return env[name]
    if not isinstance(e, tuple):
        raise CannotEval(str(e))
    op = e[0]
    if op == "const":
        if isinstance(e[2], (int, bool)):
            return int(e[2])
        raise CannotEval("const %r" % (e[2],))
    if op == "binop":
        a = evaluate(e[2], env, sym)
        b = evaluate(e[3], env, sym)
        o = e[1]
        if o.endswith("WithOverflow"):
            o2 = o[:-len("WithOverflow")]
            v = {"Add": a + b, "Sub": a - b, "Mul": a * b}[o2]
            return (v, int(v < 0 or v >= 2 ** 64))
        table = {"Add": lambda: a + b, "Sub": lambda: a - b, "Mul": lambda: a * b, "Eq": lambda: int(a == b),
                 "Ne": lambda: int(a != b), "Lt": lambda: int(a < b), "Le": lambda: int(a <= b), "Gt": lambda: int(a > b),
                 "Ge": lambda: int(a >= b), "BitAnd": lambda: a & b, "BitOr": lambda: a | b}
        if o not in table:
            raise CannotEval("binop " + o)
        v = table[o]()
        if o in ("Sub",) and v < 0:
            raise CannotEval("wrap")   # release-profile wrap: treated as not evaluable
        return v
    if op == "unop" and e[1] == "Not":
        return int(not evaluate(e[2], env, sym))
    if op == "field" and e[2] in ("0", "1"):
        v = evaluate(e[1], env, sym)
        if isinstance(v, tuple):
            return v[int(e[2])]
        raise CannotEval("field of scalar")
    if op == "agg" and e[1] == "tuple":
        return tuple(evaluate(x, env, sym) for x in e[3])
    if op == "agg" and e[1] == "std::option::Option":
        if e[2] == "None":
            return None
        return ("Some", evaluate(e[3][0], env, sym))
    if op == "cast":
        return evaluate(e[2], env, sym)
    raise CannotEval(fmt(e)[:80])
