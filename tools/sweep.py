#!/usr/bin/env python3
"""tools/sweep.py <sweeps/NAME.json>: a mechanical mutation sweep.  The file lists single textual edits
[{"name":…, "prop":"C12"|"-", "file":…, "old":…, "new":…, "nth":0}] against /repo; each is applied to a scratch copy
(outside /repo and /verif, removed afterwards), `./check ALL` runs against it, and the edits no check reports are printed.
Edits that do not compile are reported as such (the extraction fails closed, which is not a catch)."""
import json, os, sys, shutil, subprocess, re, threading
from concurrent.futures import ThreadPoolExecutor
VERIF = os.path.dirname(os.path.dirname(os.path.abspath(__file__)))
ROOT = "/tmp/nsa-sweep"


def run(e):
    S = os.path.join(ROOT, "w%d" % threading.get_ident())
    shutil.rmtree(S, ignore_errors=True)
    os.makedirs(S)
    repo = os.path.join(S, "repo")
    subprocess.check_call(["rsync", "-a", "--exclude", "target", "--exclude", ".git", "/repo/", repo + "/"])
    try:
        p = os.path.join(repo, e["file"])
        src = open(p).read()
        if "line" in e:
            lines = src.split("\n")
            l = lines[e["line"] - 1]
            assert l[e["c0"]:e["c1"]] == e["old"], (l, e)
            lines[e["line"] - 1] = l[:e["c0"]] + e["new"] + l[e["c1"]:]
            src = "\n".join(lines)
            e = dict(e, old="\0never")
            open(p, "w").write(src)
        parts = src.split(e["old"])
        n = e.get("nth", 0)
        if "line" in e:
            parts, n = [src, ""], 0
            e = dict(e, old="", new="")
        if len(parts) - 1 <= n:
            return dict(e, result="pattern not found")
        dst = e["old"].join(parts[:n + 1]) + e["new"] + e["old"].join(parts[n + 1:])
        open(p, "w").write(dst)
        env = dict(os.environ, NSA_REPO=repo, NSA_EVIDENCE_DIR=os.path.join(S, "ev"), NSA_REPLAY_DIR=os.path.join(S, "rp"))
        r = subprocess.run([os.path.join(VERIF, "check"), "ALL"], env=env, stdout=subprocess.PIPE, stderr=subprocess.STDOUT, text=True)
        fired = sorted(set(re.findall(r"VIOLATION property=(C\d+)", r.stdout)))
        if "does not compile" in r.stdout or "extraction failed" in r.stdout:
            return dict(e, result="does not compile")
        keys = re.findall(r"rule=(\S+) key=(\S+)", r.stdout)
        return dict(e, result="caught" if fired else "SILENT", fired=fired, first=("%s %s" % keys[0])[:120] if keys else "")
    finally:
        shutil.rmtree(S, ignore_errors=True)


def main():
    edits = json.load(open(sys.argv[1]))
    with ThreadPoolExecutor(max_workers=8) as ex:
        res = list(ex.map(run, edits))
    shutil.rmtree(ROOT, ignore_errors=True)
    for r in res:
        print("%-42s %-4s %-16s %s %s" % (r["name"], r["prop"], r["result"], ",".join(r.get("fired", [])), r.get("first", "")))
    out = sys.argv[1][:-5] + ".results.json"
    json.dump([{k: v for k, v in r.items()} for r in res], open(out, "w"), indent=1)
    print("silent: %d of %d" % (sum(r["result"] == "SILENT" for r in res), len(res)))


main()
