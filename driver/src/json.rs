// minimal JSON value + writer (the driver has no crates.io dependencies)
use std::fmt;

pub enum J {
    Null,
    Bool(bool),
    Num(i128),
    Str(String),
    Arr(Vec<J>),
    Obj(Vec<(String, J)>),
}

fn esc(s: &str, f: &mut fmt::Formatter<'_>) -> fmt::Result {
    f.write_str("\"")?;
    for c in s.chars() {
        match c {
            '"' => f.write_str("\\\"")?,
            '\\' => f.write_str("\\\\")?,
            '\n' => f.write_str("\\n")?,
            '\r' => f.write_str("\\r")?,
            '\t' => f.write_str("\\t")?,
            c if (c as u32) < 0x20 => write!(f, "\\u{:04x}", c as u32)?,
            c => write!(f, "{}", c)?,
        }
    }
    f.write_str("\"")
}

impl fmt::Display for J {
    fn fmt(&self, f: &mut fmt::Formatter<'_>) -> fmt::Result {
        match self {
            J::Null => f.write_str("null"),
            J::Bool(b) => write!(f, "{}", b),
            J::Num(n) => write!(f, "{}", n),
            J::Str(s) => esc(s, f),
            J::Arr(a) => {
                f.write_str("[")?;
                for (i, x) in a.iter().enumerate() {
                    if i > 0 {
                        f.write_str(",")?;
                    }
                    write!(f, "{}", x)?;
                }
                f.write_str("]")
            }
            J::Obj(o) => {
                f.write_str("{")?;
                for (i, (k, v)) in o.iter().enumerate() {
                    if i > 0 {
                        f.write_str(",")?;
                    }
                    esc(k, f)?;
                    f.write_str(":")?;
                    write!(f, "{}", v)?;
                }
                f.write_str("}")
            }
        }
    }
}
