"""R5 MUSTCHECK + R12 TYPESTATE (DESIGN.md §4 C16, C18): every entry→return path of a position-taking API
passes an operation that can diverge and whose condition relates the position to the length."""
from .facts import callee_name, callee_path, callee_resolved, fmt, strip, walk
from .rules_layout import short, up

REVIEW_CALLS = {"view_mut", "view", "slice_axis_mut", "slice_axis", "slice_mut", "slice", "slice_move",
                "reborrow", "deref", "deref_mut", "as_mut", "as_ref", "borrow", "borrow_mut", "index_axis_mut",
                "into_slice", "as_slice", "as_mut_slice"}
LEN_CALLS = {"len", "len_of", "dim", "raw_dim", "size"}


def is_param(e, idx):
    e = strip(e)
    return isinstance(e, tuple) and e[0] == "param" and e[1] == idx


def plus_const(e, is_base):
    """e == base + c (c >= 0 constant) → c, else None.  Handles AddWithOverflow (dev) and Add (release)."""
    e = strip(e)
    if is_base(e):
        return 0
    if isinstance(e, tuple) and e[0] == "field" and e[2] == "0":
        inner = strip(e[1])
        if isinstance(inner, tuple) and inner[0] == "binop" and inner[1] == "AddWithOverflow":
            e = ("binop", "Add", inner[2], inner[3])
    if isinstance(e, tuple) and e[0] == "binop" and e[1] in ("Add", "AddUnchecked"):
        a, b = strip(e[2]), strip(e[3])
        for x, y in ((a, b), (b, a)):
            if isinstance(y, tuple) and y[0] == "const" and isinstance(y[2], int) and y[2] >= 0:
                c0 = plus_const(x, is_base)
                if c0 is not None:
                    return c0 + y[2]
    return None


def base_of(e):
    """strip fields/derefs/re-view calls: the object a receiver expression is a (sub)view or field of.
    returns (root_expr, [slice specs])"""
    slices = []
    for _ in range(30):
        e = strip(e)
        if not isinstance(e, tuple):
            return e, slices
        if e[0] == "field" or e[0] == "downcast":
            e = e[1]
            continue
        if e[0] == "call" and e[1] in REVIEW_CALLS and e[3]:
            if e[1] in ("slice_axis_mut", "slice_axis") and len(e[3]) >= 3:
                slices.append(strip(e[3][2]))
            elif e[1].startswith("slice"):
                slices.append(("unknown-slice", e[1]))
            e = e[3][0]
            continue
        return e, slices
    return e, slices


def slice_start(spec):
    """Slice::from(RangeFrom{start: c}) → c ; RangeTo → 0 (prefix); else None"""
    s = strip(spec)
    if isinstance(s, tuple) and s[0] == "call" and s[1] == "from" and s[3]:
        r = strip(s[3][0])
        if isinstance(r, tuple) and r[0] == "agg":
            if r[1] == "std::ops::RangeFrom":
                return ("from", strip(r[3][0]))
            if r[1] in ("std::ops::RangeTo", "std::ops::RangeToInclusive"):
                return ("prefix", None)
            if r[1] in ("std::ops::Range",):
                return ("range", strip(r[3][0]))
    return None


def same(a, b):
    return strip(a) == strip(b)


def peel_coercions(e):
    """see through deref coercions of a container (&mut Vec → &mut [T], …)"""
    e = strip(e)
    while isinstance(e, tuple) and e[0] == "call" and e[1] in ("deref_mut", "deref", "as_mut_slice", "as_slice",
                                                              "as_mut", "as_ref", "borrow_mut", "borrow") and e[3]:
        e = strip(e[3][0])
    return e


def cmp_polarity(e):
    """normalise a boolean expression to ('lt', A, B, truth) meaning: value == truth ⇔ A < B"""
    e = strip(e)
    truth = True
    while isinstance(e, tuple) and e[0] == "unop" and e[1] == "Not":
        truth = not truth
        e = strip(e[2])
    if isinstance(e, tuple) and e[0] == "binop":
        op, a, b = e[1], e[2], e[3]
        if op == "Lt":
            return a, b, truth
        if op == "Gt":
            return b, a, truth
        if op == "Ge":     # a >= b  ⇔ !(a < b)
            return a, b, not truth
        if op == "Le":     # a <= b  ⇔ !(b < a)
            return b, a, not truth
    return None


def switch_edges(body, bb):
    """(false_target, true_target) of a boolean switch"""
    t = body.term(bb)
    f = None
    for v, tgt in t["arms"]:
        if v == 0:
            f = tgt
    tr = t["otherwise"]
    if f is None:
        return None
    return f, tr


def find_path(body, removed_blocks, removed_edges):
    """a path entry→return that uses no removed block/edge, or None"""
    prev = {0: None}
    queue = [0]
    if 0 in removed_blocks:
        return None
    while queue:
        b = queue.pop(0)
        if body.term(b)["k"] == "return":
            path = []
            x = b
            while x is not None:
                path.append(x)
                x = prev[x]
            return list(reversed(path))
        for s in body.succ(b):
            if s in prev or s in removed_blocks or (b, s) in removed_edges:
                continue
            prev[s] = b
            queue.append(s)
    return None


def path_text(body, path):
    out = []
    for b in path:
        t = body.term(b)
        if t["k"] == "call":
            out.append("bb%d %s %s(%s)" % (b, body.where(b, "term"), callee_name(t),
                                           ", ".join(fmt(x)[:60] for x in body.call_arg_exprs(b))))
        elif t["k"] == "switch":
            out.append("bb%d %s branch on %s" % (b, body.where(b, "term"), fmt(body.switch_discr_expr(b))[:80]))
        elif t["k"] == "return":
            out.append("bb%d return" % b)
    return " → ".join(out)


class MustCheck:
    def __init__(self, ctx, prog, rule="R5"):
        self.ctx = ctx
        self.prog = prog
        self.rule = rule
        self.verified = {}   # body key -> (pos_param, kind) of table entries (assume/guarantee for delegation)

    # -- discharge recognisers --------------------------------------------------------------
    def index_discharges(self, body, pos_is, recv_root_ok, min_c=0, exact_c=None):
        """blocks calling Index(recv, p + c)"""
        out = []
        for bb, t in body.calls():
            nm = callee_name(t)
            if nm not in ("index", "index_mut"):
                continue
            c = t["callee"]
            tr = c.get("trait", "")
            if not (tr.endswith("ops::Index") or tr.endswith("ops::IndexMut")):
                continue
            args = body.call_arg_exprs(bb)
            if len(args) < 2:
                continue
            root, _sl = base_of(args[0])
            if not recv_root_ok(root):
                continue
            k = plus_const(args[1], pos_is)
            if k is None or k < min_c or (exact_c is not None and k != exact_c):
                continue
            # callee must be a bounds-checking Index: ndarray / std, or a verified local impl
            res = callee_resolved(t)
            cb = self.prog.local_callee_body(t)
            if cb is not None and cb.key not in self.verified:
                continue
            out.append((bb, k))
        return out

    def cmp_discharges(self, body, pos_is, len_ok):
        """edges (bb→survivor) of switches `p < L` whose other side cannot return"""
        out = []
        for bb in body.live_blocks():
            t = body.term(bb)
            if t["k"] != "switch":
                continue
            pol = cmp_polarity(body.switch_discr_expr(bb))
            if pol is None:
                continue
            a, b_, truth = pol
            if not pos_is(strip(a)) or not len_ok(b_):
                continue
            ft = switch_edges(body, bb)
            if ft is None:
                continue
            f, tr = ft
            survivor, other = (tr, f) if truth else (f, tr)
            if body.can_reach_return(other):
                continue
            out.append((bb, survivor))
        return out

    def check_paths(self, body, key, removed_blocks, removed_edges, what, n_discharges):
        path = find_path(body, set(removed_blocks), set(removed_edges))
        ok = path is None
        if getattr(self, "_silent", 0):
            return ok          # probing a private helper: nothing is recorded unless it turns out to reject
        self.ctx.ob(self.rule, key, ok, body.where(),
                    ("every entry→return path passes one of %d discharging sites (%s)" % (n_discharges, what)) if ok else
                    ("a path reaches `return` without ever comparing the position with the length (%s): %s"
                     % (what, path_text(body, path))),
                    what="position accepted without a bounds check")
        return ok

    # -- table entries ---------------------------------------------------------------------------
    def strict(self, body, pos, recv=1):
        """p < len(self) must be checked on every returning path"""
        self.verified[body.key] = (pos, "strict")
        pos_is = lambda e: is_param(e, pos)
        recv_ok = lambda r: is_param(r, recv)
        len_ok = lambda L: (isinstance(strip(L), tuple) and strip(L)[0] == "call" and strip(L)[1] in ("len", "len_of")
                            and strip(L)[3] and recv_ok(base_of(strip(L)[3][0])[0]) and not base_of(strip(L)[3][0])[1])
        blocks = [bb for bb, k in self.index_discharges(body, pos_is, recv_ok, exact_c=0)]
        edges = self.cmp_discharges(body, pos_is, len_ok)
        # delegation
        for bb, t in body.calls():
            cb = self.prog.local_callee_body(t)
            if cb is not None and cb.key not in self.verified and cb.key not in self.prog.exported and not cb.is_closure \
                    and cb.key != body.key and getattr(self, "_probe_depth", 0) < 2:
                # a private helper that receives the array first and the position unchanged (`stash_pivot(self, pivot_index)`): if the
                # helper itself rejects an out-of-range position on every path, calling it discharges the obligation here
                cargs = body.call_arg_exprs(bb)
                if cargs and recv_ok(base_of(cargs[0])[0]) and not base_of(cargs[0])[1]:
                    hits = [i_ + 1 for i_, a_ in enumerate(cargs) if i_ > 0 and pos_is(strip(a_))]
                    if len(hits) == 1:
                        self._silent = getattr(self, "_silent", 0) + 1
                        self._probe_depth = getattr(self, "_probe_depth", 0) + 1
                        try:
                            okh = self.strict(cb, hits[0], recv=1)
                        finally:
                            self._silent -= 1
                            self._probe_depth -= 1
                        if not okh:
                            self.verified.pop(cb.key, None)
            if cb is None or cb.key not in self.verified:
                continue
            vpos, vkind = self.verified[cb.key]
            if vkind != "strict":
                continue
            args = body.call_arg_exprs(bb)
            if len(args) < vpos:
                continue
            root, slices = base_of(args[0])
            if not recv_ok(root):
                continue
            parg = strip(args[vpos - 1])
            if pos_is(parg):
                # a sub-view is never longer than the view: rejecting p there rejects it here
                if all(not (isinstance(s, tuple) and s and s[0] == "unknown-slice") for s in slices):
                    blocks.append(bb)
                continue
            # (slice_axis_mut(self, c..), p - c)
            if len(slices) == 1:
                st = slice_start(slices[0])
                if st and st[0] == "from" and isinstance(parg, tuple):
                    sub = parg
                    if sub[0] == "field" and sub[2] == "0" and isinstance(strip(sub[1]), tuple) and \
                            strip(sub[1])[0] == "binop" and strip(sub[1])[1] == "SubWithOverflow":
                        sub = ("binop", "Sub", strip(sub[1])[2], strip(sub[1])[3])
                    if sub[0] == "binop" and sub[1] in ("Sub", "SubUnchecked") and pos_is(strip(sub[2])) \
                            and self._same_value(body, sub[3], st[1]):
                        blocks.append(bb)
                    else:
                        # (p − k) − 1 against a view starting at k + 1
                        def _flat(e_):
                            e_ = strip(e_)
                            if isinstance(e_, tuple) and e_[0] == "field" and e_[2] == "0" and isinstance(strip(e_[1]), tuple) and \
                                    strip(e_[1])[0] == "binop" and strip(e_[1])[1].endswith("WithOverflow"):
                                i_ = strip(e_[1])
                                e_ = ("binop", i_[1][:-len("WithOverflow")], i_[2], i_[3])
                            return e_
                        o = _flat(parg)
                        if isinstance(o, tuple) and o[0] == "binop" and o[1] in ("Sub", "SubUnchecked") and strip(o[3]) == ("const", "usize", 1):
                            inner_ = _flat(o[2])
                            start_ = _flat(st[1])
                            if isinstance(inner_, tuple) and inner_[0] == "binop" and inner_[1] in ("Sub", "SubUnchecked") and pos_is(strip(inner_[2])) and \
                                    isinstance(start_, tuple) and start_[0] == "binop" and start_[1] in ("Add", "AddUnchecked") and \
                                    strip(start_[3]) == ("const", "usize", 1) and self._same_value(body, inner_[3], start_[2]):
                                blocks.append(bb)
        return self.check_paths(body, "%s/%s" % (short(body.key), body.local_name(pos) or "arg%d" % pos),
                                blocks, [(b, s) for b, s in edges],
                                "Index(self, p) | assert p < len(self) | delegation on a sub-view", len(blocks) + len(edges))

    def _same_value(self, body, a, b):
        """structural equality modulo the dev-profile overflow tuple"""
        def norm(e):
            e = strip(e)
            if isinstance(e, tuple) and e[0] == "field" and e[2] == "0":
                i = strip(e[1])
                if isinstance(i, tuple) and i[0] == "binop" and i[1].endswith("WithOverflow"):
                    return ("binop", i[1][:-len("WithOverflow")], norm(i[2]), norm(i[3]))
            if isinstance(e, tuple) and e[0] == "binop":
                return ("binop", e[1], norm(e[2]), norm(e[3]))
            return e
        return norm(a) == norm(b)

    def bins_index(self, body, pos):
        """p + 1 < #edges (bins = edges − 1): Index(edges, p+c) with c ≥ 1 and Index(edges, p) on every path,
        or an explicit p < Bins::len(self)"""
        self.verified[body.key] = (pos, "bins")
        pos_is = lambda e: is_param(e, pos)
        recv_ok = lambda r: is_param(r, 1)
        len_ok = lambda L: (isinstance(strip(L), tuple) and strip(L)[0] == "call" and strip(L)[1] == "len"
                            and "Bins" in strip(L)[2] and strip(L)[3] and recv_ok(base_of(strip(L)[3][0])[0]))
        edges = self.cmp_discharges(body, pos_is, len_ok)
        hi = [bb for bb, k in self.index_discharges(body, pos_is, recv_ok, min_c=1)]
        lo = [bb for bb, k in self.index_discharges(body, pos_is, recv_ok, exact_c=0)]
        key = "%s/%s" % (short(body.key), body.local_name(pos))
        ok1 = self.check_paths(body, key + "/upper-edge", hi, edges,
                               "Index(edges, p + c) with c ≥ 1 | assert p < Bins::len", len(hi) + len(edges))
        ok2 = self.check_paths(body, key + "/lower-edge", lo, edges,
                               "Index(edges, p) | assert p < Bins::len (p + 1 may wrap in release builds)", len(lo) + len(edges))
        return ok1 and ok2

    def grid_index(self, body, pos, bins_body):
        """arity check dominates; the mapped closure calls the verified Bins::index on each element"""
        key = "%s/%s" % (short(body.key), body.local_name(pos))
        from .facts import inline_calls
        # the arity assertion may sit in a private helper (`self.assert_same_ndim(..)`): judged in place
        body = inline_calls(self.prog, body, lambda cb: cb.key not in self.prog.exported and len(cb.blocks) <= 40 and not cb.raw.get("unsafe_fn")
                            and cb.key != bins_body.key)
        edges = []
        for bb in body.live_blocks():
            t = body.term(bb)
            if t["k"] != "switch":
                continue
            e = strip(body.switch_discr_expr(bb))
            truth = True
            while isinstance(e, tuple) and e[0] == "unop" and e[1] == "Not":
                truth = not truth
                e = strip(e[2])
            if not (isinstance(e, tuple) and e[0] == "binop" and e[1] in ("Eq", "Ne")):
                continue
            if e[1] == "Ne":
                truth = not truth
            a, b_ = strip(e[2]), strip(e[3])

            def is_len_of_pos(x):
                return isinstance(x, tuple) and x[0] == "call" and x[1] == "len" and x[3] and is_param(base_of(x[3][0])[0], pos)

            def is_grid_arity(x):
                if not (isinstance(x, tuple) and x[0] == "call" and x[3]):
                    return False
                root, _ = base_of(x[3][0])
                return x[1] in ("ndim", "len") and is_param(root, 1)
            if not ((is_len_of_pos(a) and is_grid_arity(b_)) or (is_len_of_pos(b_) and is_grid_arity(a))):
                continue
            ft = switch_edges(body, bb)
            if ft is None:
                continue
            f, tr = ft
            survivor, other = (tr, f) if truth else (f, tr)
            if body.can_reach_return(other):
                continue
            edges.append((bb, survivor))
        ok1 = self.check_paths(body, key + "/arity", [], edges, "assert index.len() == grid arity", len(edges))
        # element-wise delegation
        n = 0
        for c in [body] + self.prog.closures_of(body):      # a mapping closure, or the body of an explicit `for` loop
            for bb, t in c.calls():
                cb = self.prog.local_callee_body(t)
                if cb is not None and cb.key == bins_body.key and cb.key in self.verified:
                    if c is body and not any(bb in body.reachable_from(s2) for s2 in body.succ(bb)):
                        continue          # in the routine itself the call must sit in a loop (one call per element)
                    n += 1
        # and the un-mapped elements must not be dropped: the closure is consumed by map(zip(projections, index))
        ok2 = self.ctx.ob(self.rule, key + "/elementwise", n >= 1, body.where(),
                          "the per-axis closure calls the verified Bins::index (%d site)" % n if n else
                          "no call to the verified Bins::index on the elements of the index tuple",
                          what="grid index elements not bounds-checked")
        return ok1 and ok2

    def bulk(self, body, pos):
        """every requested index is < len(self): a diverging check on a bound of the whole collection"""
        key = "%s/%s" % (short(body.key), body.local_name(pos))
        recv_ok = lambda r: is_param(r, 1)

        def coll_root(e):
            """collection expression → its root through order/identity-preserving calls"""
            for _ in range(20):
                e = strip(e)
                if isinstance(e, tuple) and e[0] == "call" and e[3] and e[1] in (
                        "to_vec", "to_owned", "clone", "iter", "into_iter", "view", "as_slice", "deref", "as_ref",
                        "cloned", "copied", "collect", "from", "into"):
                    e = e[3][0]
                    continue
                if isinstance(e, tuple) and e[0] in ("field", "downcast"):
                    e = e[1]
                    continue
                return e
            return e

        def bound_of_collection(m):
            """m is `*last(V)?` / `max(iter(V))?` … with V derived from the position collection.
            returns (kind, call_expr) or None"""
            m = strip(m)
            for _ in range(10):
                if isinstance(m, tuple) and m[0] in ("field", "downcast"):
                    m = strip(m[1])
                    continue
                if isinstance(m, tuple) and m[0] == "call" and m[1] in ("unwrap", "expect", "cloned", "copied", "unwrap_or", "branch"):
                    m = strip(m[3][0])
                    continue
                break
            # the *greatest* requested position: max(), or last() of the ascending-sorted vector (sorted_at); first() is the smallest
            # and bounds nothing
            if isinstance(m, tuple) and m[0] == "call" and m[1] in ("last", "max") and m[3]:
                if is_param(coll_root(m[3][0]), pos):
                    return m[1], m
            return None

        len_ok = lambda L: (isinstance(strip(L), tuple) and strip(L)[0] == "call" and strip(L)[1] in ("len", "len_of")
                            and strip(L)[3] and recv_ok(base_of(strip(L)[3][0])[0]) and not base_of(strip(L)[3][0])[1])
        edges = []
        exempt = []
        need_sorted = []
        for bb in body.live_blocks():
            t = body.term(bb)
            if t["k"] != "switch":
                continue
            de = body.switch_discr_expr(bb)
            pol = cmp_polarity(de)
            if pol is not None:
                a, b_, truth = pol
                bd = bound_of_collection(a)
                if bd and len_ok(b_):
                    ft = switch_edges(body, bb)
                    if ft:
                        f, tr = ft
                        survivor, other = (tr, f) if truth else (f, tr)
                        if not body.can_reach_return(other):
                            edges.append((bb, survivor))
                            if bd[0] == "last":
                                need_sorted.append((bb, bd))
                continue
            sde = strip(de)
            # `if let Some(m) = v.last()`: the None arm is a path on which the collection is empty
            if isinstance(sde, tuple) and sde[0] == "discr":
                bd = bound_of_collection(sde[1])
                if bd:
                    for v, tgt in t["arms"]:
                        if v == 0:
                            exempt.append((bb, tgt))
                    if not any(v == 0 for v, _ in t["arms"]):
                        exempt.append((bb, t["otherwise"]))
            if isinstance(sde, tuple) and sde[0] == "call" and sde[1] == "is_empty" and sde[3] and \
                    is_param(coll_root(sde[3][0]), pos):
                exempt.append((bb, t["otherwise"]))
        ok = self.check_paths(body, key, [], edges + exempt,
                              "assert max/last(sorted indexes) < len(self); empty collection exempt", len(edges))
        # R12: `last()` bounds the collection only if the vector is sorted at that point
        for bb, (kind, call) in need_sorted:
            self.sorted_at(body, call, key + "/sorted-before-" + kind)
        return ok

    def sorted_at(self, body, call, key):
        """the vector `last(&V)` is applied to went through sort* (dominating) and only dedup since"""
        site = call[4]
        v = strip(call[3][0])
        # V must be a local of this body: find every call taking &mut V
        muts = []
        for bb, t in body.calls():
            for ai, a in enumerate(body.call_arg_exprs(bb)):
                if isinstance(a, tuple) and a[0] == "ref" and a[2] and peel_coercions(a[1]) == peel_coercions(v):
                    if callee_name(t) in ("deref_mut", "as_mut_slice", "as_mut", "borrow_mut"):
                        continue
                    muts.append((bb, callee_name(t)))
        sorts = [bb for bb, n in muts if n.startswith("sort")]
        others = [(bb, n) for bb, n in muts if not n.startswith("sort") and not n.startswith("dedup")]
        ok = bool(sorts) and any(body.dominates(s, site) for s in sorts) and not others
        self.ctx.ob("R12", key, ok, body.where(site, "term"),
                    "vector sorted (sort* dominates) and only dedup'ed before its last() is used as the maximum" if ok else
                    "last()/first() is used as a bound of the index collection but the vector is not known sorted "
                    "(sort sites %s, other mutations %s)" % (sorts, others),
                    what="bound of an unsorted collection")
        return ok


def rule_r12_callsites(ctx, prog, rule="R12"):
    """both callers of get_many_from_sorted_mut_unchecked pass a vector that is sorted and deduped"""
    target = prog.find("sort::get_many_from_sorted_mut_unchecked")
    n = 0
    for (b, bb) in prog.callers().get(target.key, []):
        n += 1
        args = b.call_arg_exprs(bb)
        root_b, v = up(prog, b, args[1])
        # peel deref coercions (&Vec → &[usize]) and resolve captures again
        for _ in range(6):
            if isinstance(v, tuple) and v[0] == "call" and v[1] in ("deref", "as_slice", "as_ref", "borrow") and v[3]:
                root_b, v = up(prog, root_b, v[3][0])
                continue
            break
        # v is the vector object in root_b; all &mut uses of it
        muts = []
        group = [root_b] + prog.closures_of(root_b)
        for gb in group:
            for cbb, t in gb.calls():
                for a in gb.call_arg_exprs(cbb):
                    if isinstance(a, tuple) and a[0] == "ref" and a[2]:
                        ob, oe = up(prog, gb, a[1])
                        if callee_name(t) in ("deref_mut", "as_mut_slice", "as_mut", "borrow_mut"):
                            continue
                        if ob is root_b and peel_coercions(oe) == peel_coercions(v):
                            muts.append((gb, cbb, callee_name(t)))
        names = [m[2] for m in muts]
        # a vector collected from the iteration of a BTreeSet is ascending and distinct by the container's contract
        vv = strip(v)
        from_set = False
        if isinstance(vv, tuple) and vv[0] == "call" and vv[1] in ("collect", "from_iter") and len(vv) > 4 and not muts:
            st_ = root_b.site_term(vv[4])
            aty = (st_ or {}).get("arg_tys") or [""]
            it_ = strip(vv[3][0])
            for _ in range(3):
                if isinstance(it_, tuple) and it_[0] == "call" and it_[1] in ("copied", "cloned") and it_[3]:
                    it_ = strip(it_[3][0])
            ity = aty[0]
            from_set = "std::collections::btree_set::" in ity and "Vec<" in ((st_ or {}).get("callee", {}).get("path_args") or "")
        if from_set:
            ctx.ob(rule, "%s/get_many_from_sorted_mut_unchecked/indexes" % short(root_b.key), True, b.where(bb, "term"),
                   "index vector is collected from a BTreeSet iteration (ascending and distinct by the container's contract) and never mutated")
            continue
        sort_i = [i for i, nme in enumerate(names) if nme.startswith("sort")]
        dedup_i = [i for i, nme in enumerate(names) if nme.startswith("dedup")]
        # construction-phase mutations (push/extend/with_capacity) must all dominate the sort
        ok = bool(sort_i) and bool(dedup_i)
        detail = "mutating uses of the index vector: %s" % names
        if ok:
            sb = muts[sort_i[-1]]
            db = muts[dedup_i[-1]]
            # sort dominates dedup dominates the call (same root body) or the closure creation site
            site_bb = bb
            site_body = b
            while site_body is not root_b:
                cs = prog.closure_site(site_body.key)
                site_body, site_bb = cs[0], cs[1]
            ok = sb[0] is root_b and db[0] is root_b and root_b.dominates(sb[1], db[1]) and root_b.dominates(db[1], site_bb)
            for gb, cbb, nme in muts:
                if nme.startswith("sort") or nme.startswith("dedup"):
                    continue
                # any other mutation must happen before the sort
                if gb is root_b:
                    after = any(cbb in root_b.reachable_from(s2) for s2 in root_b.succ(sb[1]))
                else:
                    # a mutation inside a closure runs when the closure is called: if the closure value is built at a site that
                    # cannot be reached once the sort has run (it is consumed by `for_each` & co. on the way to the sort), it is
                    # part of the construction phase
                    site_body, site_bb = gb, None
                    while site_body is not root_b:
                        cs = prog.closure_site(site_body.key)
                        if cs is None:
                            break
                        site_body, site_bb = cs[0], cs[1]
                    after = site_body is not root_b or site_bb is None
                    if not after:
                        # every call that receives that closure value must itself lie before the sort
                        top_key = gb.key
                        k2 = gb
                        while True:
                            cs2 = prog.closure_site(k2.key)
                            if cs2 is None or cs2[0] is root_b:
                                top_key = k2.key
                                break
                            k2 = cs2[0]
                        users = []
                        for ubb, ut in root_b.calls():
                            for ua in root_b.call_arg_exprs(ubb):
                                ua = strip(ua)
                                if isinstance(ua, tuple) and ua[0] == "agg" and ua[1] == "closure" and ua[2] == top_key:
                                    users.append(ubb)
                        post_sort = set()
                        for s2 in root_b.succ(sb[1]):
                            post_sort |= root_b.reachable_from(s2) | {s2}
                        after = not users or any(u in post_sort for u in users) or site_bb in post_sort
                if after:
                    ok = False
                    detail += "; `%s` may run after the sort" % nme
        ctx.ob(rule, "%s/get_many_from_sorted_mut_unchecked/indexes" % short(root_b.key), ok, b.where(bb, "term"),
               ("index vector is in state sorted+deduped at the call: " + detail) if ok else
               ("the vector passed to get_many_from_sorted_mut_unchecked is not known sorted+deduped: " + detail),
               what="unchecked bulk selection precondition")
    ctx.floor(rule, n, 2, "callers of get_many_from_sorted_mut_unchecked")
    return n
