"""R33 DIVISOR-POSITIVE – the strategies divide the data range (or the inter-quartile range) by a quantity derived from the number of
observations, in the *element type*: for integer elements a zero divisor is a panic where C12 promises the Strategy error (constant
data: a single observation is constant data).  For every generic division of a `from_array` constructor (private helpers read in
place) the divisor is evaluated in an interval domain over its expression DAG – `len(a)` is [1, ∞) where the site is dominated by
evidence that the input is not empty, [0, ∞) otherwise; sqrt / cbrt / powf(c>0) / log2 / round / floor / ceil / casts / + − × ÷ are
monotone transfer functions; a conversion into the element type keeps at least ⌊lo⌋ – and must have lower bound ≥ 1.
Nothing is executed; an expression outside the domain fails closed ("divisor not understood")."""
import math
from .facts import ds, fmt, inline_calls, callee_name

INF = float("inf")
PROG = [None]
STRATEGIES = ("Sqrt", "Rice", "Sturges", "FreedmanDiaconis")


def _peel(e):
    e = ds(e)
    for _ in range(6):
        if isinstance(e, tuple) and e[0] in ("ref", "deref"):
            e = ds(e[1])
        else:
            break
    return e


def _is_len_of_input(e):
    e = ds(e)
    return isinstance(e, tuple) and e[0] == "call" and e[1] in ("len", "len_of", "size") and e[3] and _peel(e[3][0])[:2] == ("param", 1)


def _mono(f, iv, dom_lo=None):
    if iv is None:
        return None
    lo, hi = iv
    if dom_lo is not None and lo < dom_lo:
        return None
    try:
        return (f(lo), f(hi))
    except (ValueError, OverflowError):
        return None


def _log(base):
    def f(x):
        if x == 0:
            return -INF
        if x == INF:
            return INF
        return math.log(x, base)
    return f


def _pow(c):
    def f(x):
        return INF if x == INF else x ** c
    return f


def _sqrt(x):
    return INF if x == INF else math.sqrt(x)


def _rnd(g):
    def f(x):
        return x if x in (INF, -INF) else float(g(x))
    return f


def interval(tb, e, len_lo, depth=0, env=None):
    """(lo, hi) of expression e, or None when outside the domain.  env: inside a closure evaluated at its call – {"params": {k: interval},
    "ups": [captured expressions], "ptb": the body the captures live in, "penv": that body's own env}"""
    e = ds(e)
    if depth > 40 or not isinstance(e, tuple):
        return None
    k = e[0]
    if env is not None:
        if k == "param" and e[1] in env["params"]:
            return env["params"][e[1]]
        if k == "upvar" and e[1] < len(env["ups"]):
            return interval(env["ptb"], env["ups"][e[1]], len_lo, depth + 1, env.get("penv"))
    if k == "const":
        v = e[2]
        if isinstance(v, bool) or not isinstance(v, (int, float)):
            return None
        return (float(v), float(v))
    if k in ("ref", "deref"):
        return interval(tb, e[1], len_lo, depth + 1, env)
    if k == "cast":
        inner = e[2] if len(e) >= 3 and isinstance(e[2], tuple) else e[1]
        iv = interval(tb, inner, len_lo, depth + 1, env)
        if iv is None:
            return None
        kind = e[1] if isinstance(e[1], str) else ""
        if kind == "FloatToInt":
            # `as` saturates: negative and NaN become 0 for unsigned targets; truncation toward zero
            tgt = e[3] if len(e) > 3 else ""
            lo, hi = iv
            lo = lo if lo in (INF, -INF) else float(math.trunc(lo))
            hi = hi if hi in (INF, -INF) else float(math.trunc(hi))
            if str(tgt).startswith("u"):
                lo, hi = max(lo, 0.0), max(hi, 0.0)
            return (lo, hi)
        if kind in ("IntToFloat", "IntToInt", "FloatToFloat"):
            if kind == "IntToInt" and len(e) > 3 and str(e[3]) in ("u8", "u16", "u32", "i8", "i16", "i32") and iv[1] == INF:
                return None     # narrowing of an unbounded count
            return iv
        return None
    if k == "binop":
        a, b = interval(tb, e[2], len_lo, depth + 1, env), interval(tb, e[3], len_lo, depth + 1, env)
        if a is None or b is None:
            return None
        op = e[1].replace("WithOverflow", "").replace("Unchecked", "")
        if op == "Add":
            return (a[0] + b[0], a[1] + b[1])
        if op == "Sub":
            lo, hi = a[0] - b[1], a[1] - b[0]
            return None if (math.isnan(lo) or math.isnan(hi)) else (lo, hi)
        if op == "Mul":
            if a[0] < 0 or b[0] < 0:
                return None
            f = lambda x, y: 0.0 if (x == 0 or y == 0) else x * y
            return (f(a[0], b[0]), f(a[1], b[1]))
        if op == "Div":
            if a[0] < 0 or b[0] <= 0:
                return None
            return (0.0 if b[1] == INF else a[0] / b[1], INF if a[1] == INF else a[1] / b[0])
        return None
    if k == "field" and len(e) >= 3 and str(e[2]) == "0":
        # (a + b) of a checked addition: the tuple's first component
        return interval(tb, e[1], len_lo, depth + 1, env)
    if k == "phi":
        out = None
        for d in e[3]:
            if d[0] in ("entry", "partial"):
                return None
            try:
                iv = interval(tb, tb.def_expr(e[1], d), len_lo, depth + 1, env)
            except Exception:
                return None
            if iv is None:
                return None
            out = iv if out is None else (min(out[0], iv[0]), max(out[1], iv[1]))
        return out
    if k == "call":
        nm, args = e[1], e[3]
        if _is_len_of_input(e):
            return (float(len_lo), INF)
        A = lambda i: interval(tb, args[i], len_lo, depth + 1, env)
        if nm in ("unwrap", "expect", "clone", "into", "from", "from_usize", "from_u64", "from_u32", "from_i64", "from_f64", "from_f32",
                  "to_f64", "to_usize", "unwrap_or_default") and args:
            iv = A(0)
            if iv is None:
                return None
            if nm.startswith("from_f") or nm == "to_usize":
                lo, hi = iv
                return (lo if lo in (INF, -INF) else float(math.floor(lo)), hi)
            return iv
        if nm == "sqrt" and len(args) == 1:
            return _mono(_sqrt, A(0), 0.0)
        if nm == "cbrt" and len(args) == 1:
            return _mono(_pow(1.0 / 3.0), A(0), 0.0)
        if nm in ("powf", "powi") and len(args) == 2:
            c = A(1)
            if c is None or c[0] != c[1] or c[0] <= 0:
                return None
            return _mono(_pow(c[0]), A(0), 0.0)
        if nm in ("log2", "ln", "log10") and len(args) == 1:
            return _mono(_log({"log2": 2.0, "ln": math.e, "log10": 10.0}[nm]), A(0), 0.0)
        if nm == "round" and len(args) == 1:
            return _mono(_rnd(lambda x: math.floor(x + 0.5)), A(0))
        if nm == "floor" and len(args) == 1:
            return _mono(_rnd(math.floor), A(0))
        if nm == "ceil" and len(args) == 1:
            return _mono(_rnd(math.ceil), A(0))
        if nm == "trunc" and len(args) == 1:
            return _mono(_rnd(math.trunc), A(0))
        if nm in ("max", "min") and len(args) == 2:
            a, b = A(0), A(1)
            if a is None or b is None:
                return None
            g = max if nm == "max" else min
            return (g(a[0], b[0]), g(a[1], b[1]))
        if nm in ("add", "sub", "mul", "div") and len(args) == 2:
            return interval(tb, ("binop", nm.capitalize(), args[0], args[1]), len_lo, depth + 1, env)
        if nm in ("call_once", "call", "call_mut") and len(args) == 2 and PROG[0] is not None:
            # a closure applied to its arguments (`n_bins_for(a.len())`): the closure's returned expression over the arguments
            f = ds(args[0])
            for _ in range(3):
                if isinstance(f, tuple) and f[0] in ("ref", "deref"):
                    f = ds(f[1])
            tup = ds(args[1])
            if isinstance(f, tuple) and f[:2] == ("agg", "closure") and f[2] in PROG[0].bodies and isinstance(tup, tuple) and tup[0] == "agg":
                cb = PROG[0].tracked(PROG[0].bodies[f[2]])
                pv = {}
                for i_, a_ in enumerate(tup[3]):
                    iv_ = interval(tb, a_, len_lo, depth + 1, env)
                    if iv_ is None:
                        return None
                    pv[2 + i_] = iv_
                try:
                    r_ = cb.return_expr()
                except Exception:
                    return None
                return interval(cb, r_, len_lo, depth + 1, dict(params=pv, ups=list(f[3]), ptb=tb, penv=env))
            return None
        if nm == "saturating_sub" and len(args) == 2:
            a, b = A(0), A(1)
            if a is None or b is None:
                return None
            return (max(a[0] - b[1], 0.0), max(a[1] - b[0], 0.0) if a[1] != INF else INF)
        if nm in ("saturating_add", "wrapping_add") and len(args) == 2:
            a, b = A(0), A(1)
            return None if (a is None or b is None) else (a[0] + b[0], a[1] + b[1])
    return None


def _truth_when_empty(e):
    """value of a Boolean expression over the input's length when the input is empty; None if it does not decide emptiness"""
    e = ds(e)
    if not isinstance(e, tuple):
        return None
    if e[0] == "unop" and e[1] == "Not":
        v = _truth_when_empty(e[2])
        return None if v is None else (not v)
    if e[0] == "call" and e[1] == "not" and len(e[3]) == 1:
        v = _truth_when_empty(e[3][0])
        return None if v is None else (not v)
    if e[0] == "call" and e[1] == "is_empty" and e[3] and _peel(e[3][0])[:2] == ("param", 1):
        return True
    if e[0] == "binop" and e[1] in ("Eq", "Ne", "Lt", "Le", "Gt", "Ge"):
        def val(x):
            x = ds(x)
            if _is_len_of_input(x):
                return 0
            if isinstance(x, tuple) and x[0] == "const" and isinstance(x[2], int) and not isinstance(x[2], bool):
                return x[2]
            return None
        a, b = val(e[2]), val(e[3])
        if a is None or b is None or not (_is_len_of_input(e[2]) or _is_len_of_input(e[3])):
            return None
        return {"Eq": a == b, "Ne": a != b, "Lt": a < b, "Le": a <= b, "Gt": a > b, "Ge": a >= b}[e[1]]
    return None


def nonempty_at(tb, bb):
    """is block bb only reached with a non-empty input (parameter 1)?  Evidence: a dominating `a.min()` / `a.max()` (its Err leaves –
    R6/R13 check the propagation) or a dominating decision on len()/is_empty() whose edge towards bb is not the one taken when empty."""
    from .rules_unsafe import branch_dominates
    for b2, t in tb.calls():
        if b2 != bb and callee_name(t) in ("min", "max") and tb.dominates(b2, bb):
            a = tb.call_arg_exprs(b2)
            if a and _peel(a[0])[:2] == ("param", 1) and "QuantileExt" in (t["callee"].get("path") or "") + str(t["callee"].get("trait") or ""):
                return "dominated by a.%s()?" % callee_name(t)
    for b2 in tb.live_blocks():
        t = tb.term(b2)
        if t["k"] != "switch" or not tb.dominates(b2, bb) or b2 == bb:
            continue
        de = ds(tb.switch_discr_expr(b2))
        if t.get("discr_ty") == "bool":
            w = _truth_when_empty(de)
            if w is None:
                continue
            f = [tgt for v, tgt in t["arms"] if v == 0]
            if not f:
                continue
            empty_edge = t["otherwise"] if w else f[0]
            other_edge = f[0] if w else t["otherwise"]
            if branch_dominates(tb, b2, other_edge, bb) and not branch_dominates(tb, b2, empty_edge, bb):
                return "dominated by the non-empty side of `%s`" % fmt(de)[:50]
        elif _is_len_of_input(de):
            z = [tgt for v, tgt in t["arms"] if v == 0]
            if z and branch_dominates(tb, b2, t["otherwise"], bb) and not branch_dominates(tb, b2, z[0], bb):
                return "dominated by the non-zero arm of a match on the length"
    return None


def rule_divisors(ctx, prog, rule="R33"):
    n = 0
    PROG[0] = prog
    for sname in STRATEGIES:
        try:
            fa = prog.find("histogram::strategies::%s<T> as histogram::strategies::BinsBuildingStrategy>::from_array" % sname)
        except Exception:
            ctx.ob(rule, "%s::from_array/exists" % sname, False, "", "anchor missing", what="anchor missing")
            continue
        b = inline_calls(prog, fa, lambda cb: cb.key not in prog.exported and not cb.is_closure and "strategies" in cb.key
                         and not cb.raw.get("unsafe_fn"), max_depth=3)
        tb = prog.tracked(b)
        k = 0
        for bb, t in tb.calls():
            if callee_name(t) not in ("div", "rem") or not tb.can_reach_return(bb):
                continue
            args = tb.call_arg_exprs(bb)
            if len(args) != 2:
                continue
            k += 1
            n += 1
            ev = nonempty_at(tb, bb)
            iv = interval(tb, args[1], 1 if ev else 0)
            key = "%s::from_array/divisor#%d" % (sname, k)
            if iv is None:
                ctx.ob(rule, key + "/found:not-understood", False, tb.where(bb, "term"),
                       "divisor `%s` is outside the interval domain (not a monotone function of the number of observations)" % fmt(ds(args[1]))[:120],
                       what="divisor not understood")
                continue
            ok = iv[0] >= 1.0
            ctx.ob(rule, key + ("" if ok else "/found:lo=%g" % iv[0]), ok, tb.where(bb, "term"),
                   "divisor `%s` ∈ [%g, %g] with len(a) ≥ %d (%s): never zero in any element type" % (fmt(ds(args[1]))[:90], iv[0], iv[1], 1 if ev else 0,
                                                                                                 ev or "no evidence of non-emptiness") if ok else
                   "divisor `%s` can be %g (len(a) ≥ %d: %s): for integer element types the division panics where C12 promises "
                   "Err(Strategy) / Err(EmptyInput) – e.g. a single observation" % (fmt(ds(args[1]))[:90], iv[0], 1 if ev else 0, ev or "no evidence of non-emptiness at the site"),
                   what="zero divisor reachable")
    ctx.floor(rule, n, 4, "generic divisions in the strategies' constructors")
    return n
