"""R6 GUARD (DESIGN.md §4 C17): ordered guard sequence, error variant and payload provenance of every
fallible routine, extracted from the MIR and compared with the decision table of the property."""
from .facts import callee_name, fmt, strip, walk
from .rules_layout import short, producer_chain

RESULT = "std::result::Result"
OPTION = "std::option::Option"


def last_generic(ty):
    """'Result<T, E>' → 'E' (top-level split)"""
    if "<" not in ty:
        return None
    inner = ty[ty.index("<") + 1: ty.rindex(">")]
    depth = 0
    cut = 0
    for i, ch in enumerate(inner):
        if ch in "<([":
            depth += 1
        elif ch in ">)]":
            depth -= 1
        elif ch == "," and depth == 0:
            cut = i + 1
    return inner[cut:].strip()


def subst(e, mapping):
    """replace ('param', i, _) by mapping[i] (expression of the caller)"""
    if not isinstance(e, tuple) or not e:
        return e
    if e[0] == "param":
        return mapping.get(e[1], e)
    if e[0] == "call":
        return ("call", e[1], e[2], tuple(subst(a, mapping) for a in e[3]), ("inl", e[4]))
    if e[0] == "agg":
        return e[:3] + (tuple(subst(a, mapping) for a in e[3]),) + e[4:]
    if e[0] == "binop":
        return ("binop", e[1], subst(e[2], mapping), subst(e[3], mapping))
    if e[0] in ("unop", "cast"):
        return (e[0], e[1], subst(e[2], mapping)) + e[3:]
    if e[0] in ("field", "downcast", "deref", "ref", "discr", "index"):
        return (e[0], subst(e[1], mapping)) + tuple(subst(x, mapping) if isinstance(x, tuple) else x for x in e[2:])
    if e[0] == "mut" and len(e) == 3:
        return ("mut", subst(e[1], mapping), e[2])
    return e


class Exit:
    """one way out of a routine other than the final success value"""

    def __init__(self, kind, body, bb, cond=None, err=None, cls=None, detail=""):
        self.kind = kind      # 'err' | 'panic' | 'delegate'
        self.body = body
        self.bb = bb
        self.cond = cond      # (class, subjects…)
        self.err = err        # normalised error expression
        self.cls = cls
        self.detail = detail

    def __repr__(self):
        return "%s[%s → %s]" % (self.kind, self.cls, fmt(self.err) if self.err is not None else "")


# --------------------------------------------------------------------------- condition classes

def obj(e):
    """the array/value a query is about: strips borrows and shape-preserving adapters"""
    for _ in range(20):
        e = strip(e)
        if isinstance(e, tuple) and e[0] == "call" and e[3] and e[1] in (
                "view", "view_mut", "to_owned", "clone", "map", "mapv", "mapv_into", "iter", "into_iter", "deref",
                "as_ref", "borrow", "reborrow", "into_dyn", "indexed_iter", "into_dimensionality"):
            e = e[3][0]
            continue
        return e
    return e


def opt_emptiness(e):
    """Option-valued expression that is None exactly when some array is empty → ('EMPTY', x) / ('AXIS-EMPTY', x, axis)"""
    e = strip(e)
    if not (isinstance(e, tuple) and e[0] == "call" and e[3]):
        return None
    nm = e[1]
    if nm in ("first", "last", "next", "min", "max", "mean", "sum_opt") and nm != "min" and nm != "max":
        return ("EMPTY", obj(e[3][0]))
    if nm == "mean_axis" and len(e[3]) >= 2:
        return ("AXIS-EMPTY", obj(e[3][0]), strip(e[3][1]))
    if nm in ("map", "and_then", "cloned", "copied", "as_ref"):
        return opt_emptiness(e[3][0])
    return None


def classify_bool(e):
    """boolean expression → (class tuple, value_when_bad) where the error side is taken when expr == value"""
    e = strip(e)
    bad = True
    while isinstance(e, tuple) and e[0] == "unop" and e[1] == "Not":
        bad = not bad
        e = strip(e[2])
    if isinstance(e, tuple) and e[0] == "binop" and e[1] in ("Eq", "Ne"):
        a, b = strip(e[2]), strip(e[3])
        if e[1] == "Ne":
            neq = True
        else:
            neq = False
        for x, y in ((a, b), (b, a)):
            if isinstance(y, tuple) and y[0] == "const" and y[2] == 0 and isinstance(x, tuple) and x[0] == "call" and x[3]:
                if x[1] == "len":
                    return ("EMPTY", obj(x[3][0])), (bad if not neq else not bad)
                if x[1] == "len_of" and len(x[3]) >= 2:
                    return ("AXIS-EMPTY", obj(x[3][0]), strip(x[3][1])), (bad if not neq else not bad)
        # shape(x)[axis.index()] != len(w)
        for x, y in ((a, b), (b, a)):
            if isinstance(x, tuple) and x[0] == "index" and isinstance(y, tuple) and y[0] == "call" and y[1] == "len" and y[3]:
                sh = strip(x[1])
                ix = strip(x[2])
                if isinstance(sh, tuple) and sh[0] == "call" and sh[1] == "shape" and \
                        isinstance(ix, tuple) and ix[0] == "call" and ix[1] == "index" and ix[3]:
                    cls = ("AXISLEN", obj(sh[3][0]), strip(ix[3][0]), obj(y[3][0]))
                    return cls, (bad if neq else not bad)
            if isinstance(x, tuple) and x[0] == "call" and x[1] == "len_of" and len(x[3]) >= 2 and \
                    isinstance(y, tuple) and y[0] == "call" and y[1] == "len" and y[3]:
                cls = ("AXISLEN", obj(x[3][0]), strip(x[3][1]), obj(y[3][0]))
                return cls, (bad if neq else not bad)
        # n == 0 / n != 0 on a component of dim()/shape() of x  (pearson: `!(n == 0 || m == 0)`)
        for x, y in ((a, b), (b, a)):
            if isinstance(y, tuple) and y[0] == "const" and y[2] == 0:
                d = x
                while isinstance(d, tuple) and d[0] in ("field",):
                    d = strip(d[1])
                if isinstance(d, tuple) and d[0] == "call" and d[1] in ("dim", "nrows", "ncols", "shape") and d is not x:
                    return ("DIM-EMPTY", obj(d[3][0]), fmt(x)), (bad if not neq else not bad)
                if isinstance(x, tuple) and x[0] == "call" and x[1] in ("nrows", "ncols") and x[3]:
                    return ("DIM-EMPTY", obj(x[3][0]), fmt(x)), (bad if not neq else not bad)
        # raw shape equality
        return ("OTHER", e), bad
    if isinstance(e, tuple) and e[0] == "call" and e[3]:
        nm = e[1]
        if nm == "is_empty":
            return ("EMPTY", obj(e[3][0])), bad
        if nm in ("ne", "eq") and len(e[3]) == 2:
            a, b = strip(e[3][0]), strip(e[3][1])
            if isinstance(a, tuple) and a[0] == "call" and a[1] in ("shape", "raw_dim", "dim") and \
                    isinstance(b, tuple) and b[0] == "call" and b[1] in ("shape", "raw_dim", "dim"):
                cls = ("SHAPE", obj(a[3][0]), obj(b[3][0]))
                return cls, (bad if nm == "ne" else not bad)
        if nm in ("ge", "le", "gt", "lt") and len(e[3]) == 2:
            a, b = strip(e[3][0]), strip(e[3][1])
            if isinstance(b, tuple) and b[0] == "const" and b[2] in (0, 0.0, 1, 1.0):
                if nm == "ge" and b[2] in (0, 0.0):
                    return ("QLOW", a), (not bad)
                if nm == "le" and b[2] in (1, 1.0):
                    return ("QHIGH", a), (not bad)
                if nm == "lt" and b[2] in (0, 0.0):
                    return ("QLOW", a), bad
                if nm == "gt" and b[2] in (1, 1.0):
                    return ("QHIGH", a), bad
            return ("CMP", nm, a, b), bad
        if nm in ("is_none", "is_some"):
            oe = opt_emptiness(e[3][0])
            if oe:
                return oe, (bad if nm == "is_none" else not bad)
            return ("ISNONE", strip(e[3][0])), (bad if nm == "is_none" else not bad)
    if isinstance(e, tuple) and e[0] == "binop" and e[1] in ("Gt", "Lt", "Ge", "Le"):
        a, b = strip(e[2]), strip(e[3])
        # n > 0 on a dimension of x  (pearson: match self.dim() { (n, m) if n > 0 && m > 0 … })
        for x, y, op in ((a, b, e[1]), (b, a, {"Gt": "Lt", "Lt": "Gt", "Ge": "Le", "Le": "Ge"}[e[1]])):
            if isinstance(y, tuple) and y[0] == "const" and y[2] == 0 and op == "Gt":
                d = x
                while isinstance(d, tuple) and d[0] in ("field",):
                    d = strip(d[1])
                if isinstance(d, tuple) and d[0] == "call" and d[1] in ("dim", "len_of", "nrows", "ncols", "shape", "len"):
                    return ("DIM-EMPTY", obj(d[3][0]), fmt(x)), (not bad)
        return ("CMP", e[1], a, b), bad
    return ("OTHER", e), bad


# --------------------------------------------------------------------------- exit extraction

class Routine:
    def __init__(self, prog, body, depth=0, mapping=None):
        self.prog = prog
        if not getattr(body, "_pred_threaded", False):
            # private boolean predicates are read in place and their constant results threaded to the branch they select
            from .facts import inline_calls, thread_constant_flags
            _pred = lambda cb: (not cb.is_closure) and cb.key not in prog.exported and (cb.raw.get("output") == "bool") and \
                len(cb.blocks) <= 20 and not cb.raw.get("unsafe_fn")
            nb = thread_constant_flags(prog, inline_calls(prog, body, _pred))
            from .facts import forward_result_local
            nb = forward_result_local(prog, nb)
            if nb is not body:
                nb._pred_threaded = True
                body = nb
        self.body = body
        self.exits = []
        self.success = None
        self.unknown = []
        self._extract(depth, mapping)

    def first_ret_defs(self, start, avoid):
        """definitions of the return place that are first on some path from `start`; None = reaches return undefined"""
        b = self.body
        seen = set()
        out = []
        stack = [start]
        while stack:
            x = stack.pop()
            if x == avoid:
                out.append("loop")
                continue
            if x in seen:
                continue
            seen.add(x)
            blk = b.blocks[x]
            found = None
            for si, s in enumerate(blk["stmts"]):
                if s["k"] == "assign" and s["dst"]["l"] == 0 and not s["dst"]["p"]:
                    found = (x, si)
                    break
            if found is None:
                t = blk["term"]
                if t["k"] == "call" and t["dst"]["l"] == 0 and not t["dst"]["p"]:
                    found = (x, "term")
            if found is not None:
                out.append(found)
                continue
            if blk["term"]["k"] == "return":
                out.append(None)
                continue
            stack.extend(b.succ(x))
        return out

    def ret_kind(self, d):
        if d is None:
            return ("undef", None)
        if d == "loop":
            return ("loop", None)
        e = strip(self.body.def_expr(0, d))
        if isinstance(e, tuple) and e[0] == "agg" and e[1] == RESULT:
            return ("err" if e[2] == "Err" else "ok", e[3][0] if e[3] else None)
        if isinstance(e, tuple) and e[0] == "call" and e[1] == "from_residual":
            return ("residual", e)
        if isinstance(e, tuple) and e[0] == "call":
            return ("call", e)
        return ("other", e)

    def _extract(self, depth, mapping):
        b = self.body
        prog = self.prog
        guards = []
        for bb in b.live_blocks():
            t = b.term(bb)
            if t["k"] != "switch":
                continue
            succs = b.succ(bb)
            if len(succs) < 2:
                continue
            info = []
            for s in succs:
                if not b.can_reach_return(s):
                    if b.term(s)["k"] == "unreachable":
                        continue   # impossible enum variant, not a source-level panic
                    info.append((s, "diverge", []))
                    continue
                fds = self.first_ret_defs(s, bb)
                if None in fds:
                    # the return place keeps the value it had when this side was entered (`let mut out = Err(E); if .. { out = Ok(v) } out`)
                    try:
                        rd0 = [d0 for d0 in b.reaching_defs(0, s, 0) if d0[0] not in ("entry", "partial")]
                    except Exception:
                        rd0 = []
                    if len(rd0) == 1:
                        fds = [rd0[0] if d is None else d for d in fds]
                kinds = [self.ret_kind(d) for d in fds]
                if kinds and all(k[0] in ("err", "residual") for k in kinds):
                    info.append((s, "error", list(zip(fds, kinds))))
                else:
                    info.append((s, "continue", list(zip(fds, kinds))))
            n_err = [i for i in info if i[1] == "error"]
            n_div = [i for i in info if i[1] == "diverge"]
            n_cont = [i for i in info if i[1] == "continue"]
            if n_err and (n_cont or n_div):
                guards.append((bb, "err", n_err, n_cont))
            elif n_div and n_cont:
                guards.append((bb, "panic", n_div, n_cont))
        # `.unwrap()` / `.expect()` applied directly to the Result of a fallible routine of this crate turns that routine's
        # documented error into a panic: recorded as a panic decision at the call (class UNWRAP)
        for bb, t in b.calls():
            if callee_name(t) in ("unwrap", "expect") and "result" in (t["callee"].get("path") or "").lower():
                a0 = strip(b.call_arg_exprs(bb)[0])
                if isinstance(a0, tuple) and a0[0] == "call":
                    tgt_ = (prog.bodies.get(a0[2]) is not None) or any(a0[1] == m_ for (_tr, m_) in TABLE if isinstance(m_, str))
                    if tgt_ and b.can_reach_return(bb):
                        guards.append((bb, "panic-unwrap", a0[1], None))

        # order: dominance first, then one-way reachability
        def precedes(g1, g2):
            a, b2 = g1[0], g2[0]
            if a == b2:
                return False
            if b.dominates(a, b2):
                return True
            if b.dominates(b2, a):
                return False
            ra = b2 in b.reachable_from(a)
            rb = a in b.reachable_from(b2)
            return ra and not rb
        order = sorted(guards, key=lambda g: sum(1 for h in guards if precedes(h, g)))
        for (bb, kind, bad_succs, conts) in order:
            if kind == "panic-unwrap":
                self.exits.append(Exit("panic", b, bb, cls=("UNWRAP", bad_succs)))
                continue
            t = b.term(bb)
            de = b.switch_discr_expr(bb)
            if mapping:
                de = subst(de, mapping)
            sde = strip(de)
            bad_targets = [s for s, _, _ in bad_succs]
            # which switch value leads to the bad side
            bad_vals = [v for v, tgt in t["arms"] if tgt in bad_targets]
            bad_other = t["otherwise"] in bad_targets
            is_bool = t.get("discr_ty") == "bool"
            cls = None
            inner_delegate = None
            if is_bool:
                c, bad_when = classify_bool(sde)
                takes_bad_on_true = bad_other and 0 not in bad_vals
                takes_bad_on_false = 0 in bad_vals
                if takes_bad_on_true and not takes_bad_on_false:
                    actual = True
                elif takes_bad_on_false and not takes_bad_on_true:
                    actual = False
                else:
                    actual = None
                if actual is not None and actual == bad_when:
                    cls = c
                elif actual is not None:
                    cls = ("NEG",) + (c,)
            elif isinstance(sde, tuple) and sde[0] == "discr":
                inner = strip(sde[1])
                # `?`: discr(branch(E)) – Break (variant 1) is the bad side
                if isinstance(inner, tuple) and inner[0] == "call" and inner[1] == "branch" and inner[3]:
                    E = strip(inner[3][0])
                    cls, inner_delegate = self.classify_try(E)
                else:
                    oe = opt_emptiness(inner)
                    # None = variant 0
                    none_bad = (0 in bad_vals) or (bad_other and not any(v == 0 for v, _ in t["arms"]))
                    if oe and none_bad:
                        cls = oe
                    elif isinstance(inner, tuple) and inner[0] == "call" and inner[1] == "partial_cmp" and len(inner[3]) == 2 and none_bad:
                        cls = ("NOORDER", strip(inner[3][0]), strip(inner[3][1]))       # match a.partial_cmp(b) { None => Err(..), … }
                    elif isinstance(inner, tuple) and inner[0] == "call" and none_bad and self.returns_option(inner):
                        cls = ("ISNONE", inner)
                    elif isinstance(inner, tuple) and inner[0] == "call":
                        cls = ("MATCH", inner)
                        # `if let Err(e) = helper(..) { return Err(e) }` on a private fallible helper is `helper(..)?`: the
                        # helper's own decisions are this routine's decisions
                        err_bad = (1 in bad_vals) or (bad_other and any(v == 0 for v, _ in t["arms"]))
                        cbh = prog.bodies.get(inner[2])
                        if err_bad and cbh is not None and self.inlineable(cbh) and (cbh.raw.get("output") or "").startswith(RESULT):
                            c2, d2 = self.classify_try(inner)
                            if d2 is not None:
                                cls, inner_delegate = c2, d2
                    else:
                        cls = ("OTHER", sde)
            elif bad_vals == [0] and not bad_other and isinstance(sde, tuple) and (
                    (sde[0] == "call" and sde[1] in ("len", "len_of", "size", "ndim", "nrows", "ncols")) or
                    (sde[0] == "field" and isinstance(strip(sde[1]), tuple) and strip(sde[1])[0] == "call" and strip(sde[1])[1] in ("dim", "shape"))):
                # `match x.len() { 0 => <bad>, n => … }`: the same decision as `x.len() == 0`
                c, bad_when = classify_bool(("binop", "Eq", sde, ("const", "usize", 0)))
                cls = c if bad_when else ("NEG",) + (c,)
            else:
                cls = ("OTHER", sde)
            if kind == "panic":
                # only source-level panics (assert!/panic!), not `unreachable`
                self.exits.append(Exit("panic", b, bb, cls=cls))
                continue
            # error value(s)
            errs = []
            for s, _, fk in bad_succs:
                for d, (k, payload) in fk:
                    errs.append(self.norm_err(k, payload, mapping))
            if inner_delegate is not None and depth < 3:
                callee_body, cargs = inner_delegate
                if self.inlineable(callee_body):
                    sub = Routine(prog, callee_body, depth + 1,
                                  {i + 1: a for i, a in enumerate(cargs)})
                    for x in sub.exits:
                        self.exits.append(x)
                    continue
            self.exits.append(Exit("delegate" if (cls and cls[0] == "DELEGATE") else "err", b, bb, cls=cls,
                                   err=errs[0] if errs else None,
                                   detail="; ".join(fmt(x) for x in errs[1:])))
        # final value
        ex = b.exits()
        if ex:
            rds = b.reaching_defs(0, ex[0], "term")
            finals = []
            for d in rds:
                k, payload = self.ret_kind(d)
                if k in ("ok", "call", "other"):
                    finals.append((k, subst(payload, mapping) if (mapping and payload is not None) else payload))
            self.success = finals
            # a routine that *returns* g(..).map(..) delegates all error behaviour to g
            for k, payload in finals:
                if k == "call":
                    dl = self.find_delegate(payload)
                    if dl is not None:
                        callee_body, cargs, chain = dl
                        if callee_body is not None and self.inlineable(callee_body) and depth < 3:
                            sub = Routine(prog, callee_body, depth + 1, {i + 1: a for i, a in enumerate(cargs)})
                            self.exits.extend(sub.exits)
                        else:
                            self.exits.append(Exit("delegate", b, ex[0], cls=("DELEGATE", chain[-1], tuple(cargs), tuple(chain[:-1])),
                                                   err=None))
                    else:
                        # `iter.map(fallible).collect::<Result<_, _>>().map(..)` returned as is: the first error of the collected
                        # items is the routine's error (the same decision as `collect()?`)
                        pc_ = strip(payload)
                        for _ in range(4):
                            if isinstance(pc_, tuple) and pc_[0] == "call" and pc_[1] in ("map", "map_err", "and_then") and pc_[3] and "result::Result" in pc_[2]:
                                pc_ = strip(pc_[3][0])
                        if isinstance(pc_, tuple) and pc_[0] == "call" and pc_[1] == "collect":
                            self.exits.append(Exit("err", b, ex[0], cls=("OTHER", pc_), err=None))
                            continue
                        # Option→Result conversions: ok_or(opt, E)
                        p = strip(payload)
                        if isinstance(p, tuple) and p[0] == "call" and p[1] == "ok_or" and len(p[3]) == 2:
                            oe = opt_emptiness(p[3][0])
                            if oe is None:
                                # Option adapters that keep None-ness: opt.map(f).ok_or(E) is Err(E) iff opt is None
                                o = strip(p[3][0])
                                for _ in range(4):
                                    if isinstance(o, tuple) and o[0] == "call" and o[1] in ("map", "cloned", "copied", "as_ref", "as_deref", "inspect") \
                                            and o[3] and "option::Option" in o[2]:
                                        o = strip(o[3][0])
                                    else:
                                        break
                                if isinstance(o, tuple) and o[0] == "call":
                                    oe = opt_emptiness(o) or ("ISNONE", o)
                            self.exits.append(Exit("err", b, ex[0], cls=oe or ("OTHER", p[3][0]),
                                                   err=self.norm_err("err", p[3][1], mapping)))

    def returns_option(self, call):
        t = self.body.site_term(call[4]) if hasattr(self.body, "site_term") else None
        if not t:
            return False
        d = t.get("dst")
        if d and not d["p"]:
            return self.body.local_ty(d["l"]).startswith("std::option::Option<")
        return False

    def inlineable(self, callee_body):
        """private helpers (not part of the public API) are inlined; public routines stay DELEGATE exits"""
        return callee_body is not None and callee_body.key not in self.prog.exported and not callee_body.is_closure

    def find_delegate(self, e):
        """e = adapters(map/map_err…) over a call to a local Result-returning routine → (body, args, [adapters…, name])"""
        chain = []
        for _ in range(10):
            e = strip(e)
            if not (isinstance(e, tuple) and e[0] == "call"):
                return None
            cb = self.prog.bodies.get(e[2])
            cb = cb or self._resolve_local(e)
            if cb is not None and (cb.raw.get("output", "").startswith(RESULT)):
                return cb, [strip(a) for a in e[3]], chain + [cb.name]
            if cb is None and e[2].split("::")[0] in LOCAL_TRAIT_MODS and e[3]:
                return None, [strip(a) for a in e[3]], chain + [e[1]]
            if e[1] in ("map", "map_err", "and_then", "into", "from") and e[3]:
                chain.append(e[1])
                e = e[3][0]
                continue
            return None
        return None

    def _resolve_local(self, e):
        # trait method calls are recorded with the trait item path; find the (single) local impl by name
        path = e[2]
        name = e[1]
        for tr in LOCAL_TRAITS:
            if path.startswith(tr + "::"):
                ms = [b for b in self.prog.bodies.values() if b.name == name and (b.raw.get("impl_trait") == tr)]
                if len(ms) == 1:
                    return ms[0]
        return None

    def classify_try(self, E):
        """E? → class of the Break side"""
        for _ in range(3):
            # r.map_err(From::from)? is r? (the `?` converts anyway); opt.ok_or_else(|| E) is opt.ok_or(E) for a closure that only
            # builds the error value
            if isinstance(E, tuple) and E[0] == "call" and E[1] == "map_err" and len(E[3]) == 2:
                f_ = strip(E[3][1])
                if isinstance(f_, tuple) and f_[0] == "fn" and str(f_[1]).rsplit("::", 1)[-1] in ("from", "into"):
                    E = strip(E[3][0])
                    continue
            if isinstance(E, tuple) and E[0] == "call" and E[1] == "ok_or_else" and len(E[3]) == 2:
                c_ = strip(E[3][1])
                if isinstance(c_, tuple) and c_[:2] == ("agg", "closure") and c_[2] in self.prog.bodies:
                    cbd = self.prog.bodies[c_[2]]
                    if not list(cbd.calls()) and not any(cbd.term(x_)["k"] == "switch" for x_ in cbd.live_blocks()):
                        E = ("call", "ok_or", E[2], (E[3][0], strip(cbd.return_expr())), E[4])
                        continue
            break
        if isinstance(E, tuple) and E[0] == "call":
            if E[1] == "ok_or" and len(E[3]) == 2:
                oe = opt_emptiness(E[3][0])
                if oe:
                    return oe, None
                pc = strip(E[3][0])
                if isinstance(pc, tuple) and pc[0] == "call" and pc[1] == "partial_cmp" and len(pc[3]) == 2:
                    return ("NOORDER", strip(pc[3][0]), strip(pc[3][1])), None
                if isinstance(pc, tuple) and pc[0] == "call":
                    return ("ISNONE", pc), None
                return ("OTHER", E), None
            dl = self.find_delegate(E)
            if dl is not None:
                cb, cargs, chain = dl
                return ("DELEGATE", chain[-1], tuple(cargs), tuple(chain[:-1])), ((cb, cargs) if cb is not None else None)
        return ("OTHER", E), None

    def norm_err(self, k, payload, mapping):
        """normalise an error value: conversions (Into/From, `?`) are applied symbolically"""
        prog = self.prog
        if k == "residual":
            call = payload
            arg = strip(call[3][0]) if call[3] else None
            # residual = (branch(E) as Break).0 ; error inside = (… as Err).0
            src = arg
            inner_try = None
            for x in walk(arg):
                if x[0] == "call" and x[1] == "branch" and x[3]:
                    inner_try = strip(x[3][0])
                    break
            fr_ty = None
            to_ty = None
            # types from the from_residual call
            t = self.body.term(call[4]) if isinstance(call[4], int) else None
            if t is not None:
                ga = t["callee"].get("args", [])
                if len(ga) >= 2:
                    to_ty = last_generic(ga[0])
                    fr_ty = last_generic(ga[1])
            val = None
            explicit_conv = False
            for _ in range(3):
                if isinstance(inner_try, tuple) and inner_try[0] == "call" and inner_try[1] == "map_err" and len(inner_try[3]) == 2:
                    f_ = strip(inner_try[3][1])
                    if isinstance(f_, tuple) and f_[0] == "fn" and str(f_[1]).rsplit("::", 1)[-1] in ("from", "into"):
                        inner_try = strip(inner_try[3][0])        # r.map_err(From::from)?: the conversion `?` would apply, spelled out
                        explicit_conv = True
                        continue
                if isinstance(inner_try, tuple) and inner_try[0] == "call" and inner_try[1] == "ok_or_else" and len(inner_try[3]) == 2:
                    c_ = strip(inner_try[3][1])
                    if isinstance(c_, tuple) and c_[:2] == ("agg", "closure") and c_[2] in prog.bodies and not list(prog.bodies[c_[2]].calls()):
                        inner_try = ("call", "ok_or", inner_try[2], (inner_try[3][0], strip(prog.bodies[c_[2]].return_expr())), inner_try[4])
                        continue
                break
            if inner_try is not None and inner_try[0] == "call" and inner_try[1] == "ok_or" and len(inner_try[3]) == 2:
                val = strip(inner_try[3][1])
            if mapping and val is not None:
                val = subst(val, mapping)
            if val is None:
                return ("converted", fr_ty, to_ty, fmt(inner_try) if inner_try is not None else "?")
            if explicit_conv and isinstance(val, tuple) and val[0] == "agg" and to_ty and val[1] != to_ty:
                return self.convert(val, val[1], to_ty)
            return self.convert(val, fr_ty, to_ty)
        e = strip(payload) if payload is not None else None
        # a private straight-line helper that only builds the error value (`shape_mismatch(a.shape(), b.shape())`): the value it builds
        for _ in range(2):
            if isinstance(e, tuple) and e[0] == "call" and isinstance(e[2], str) and e[2] in prog.bodies:
                hb_ = prog.bodies[e[2]]
                if hb_.key not in prog.exported and not hb_.is_closure and not any(hb_.term(x_)["k"] == "switch" for x_ in hb_.live_blocks()):
                    try:
                        e = strip(subst(strip(hb_.return_expr()), {i_ + 1: a_ for i_, a_ in enumerate(e[3])}))
                        continue
                    except Exception:
                        pass
            break
        # into()/from()  (resolved with this body's own call sites, i.e. before any substitution of caller arguments)
        for _ in range(5):
            if isinstance(e, tuple) and e[0] == "call" and e[1] in ("into", "from") and len(e[3]) == 1:
                inner = strip(e[3][0])
                t = self.body.term(e[4]) if isinstance(e[4], int) else None
                fr_ty = to_ty = None
                if t is not None:
                    ga = t["callee"].get("args", [])
                    if e[1] == "into" and len(ga) >= 2:
                        fr_ty, to_ty = ga[0], ga[1]
                    elif e[1] == "from" and len(ga) >= 2:
                        to_ty, fr_ty = ga[0], ga[1]
                e = self.convert(inner, fr_ty, to_ty)
                continue
            break
        if mapping and e is not None:
            e = subst(e, mapping)
        return e

    def convert(self, val, fr_ty, to_ty):
        if fr_ty is None or to_ty is None or fr_ty == to_ty:
            return val
        # find `impl From<fr> for to` in the crate
        for b in self.prog.bodies.values():
            if b.name == "from" and (b.raw.get("impl_trait") or "").endswith("convert::From") and \
                    b.raw.get("impl_self") == to_ty and b.raw.get("inputs") == [fr_ty]:
                r = b.return_expr()
                r = strip(r)
                if isinstance(r, tuple) and r[0] == "phi":
                    # match on the source variant: evaluate per variant when the source is a known aggregate
                    return ("converted-by", b.key, val)
                return subst(r, {1: val})
        return ("converted", fr_ty, to_ty, fmt(val))


LOCAL_TRAITS = [
    "correlation::CorrelationExt", "deviation::DeviationExt", "entropy::EntropyExt",
    "histogram::histograms::HistogramExt", "maybe_nan::MaybeNanExt", "quantile::QuantileExt",
    "quantile::Quantile1dExt", "sort::Sort1dExt", "summary_statistics::SummaryStatisticsExt",
    "histogram::strategies::BinsBuildingStrategy",
]
LOCAL_TRAIT_MODS = {"correlation", "deviation", "entropy", "histogram", "maybe_nan", "quantile", "sort",
                    "summary_statistics"}


def describe(x):
    cls = x.cls
    if cls is None:
        return "?"

    def f(c):
        if isinstance(c, tuple) and c and isinstance(c[0], str) and c[0].isupper():
            return "%s(%s)" % (c[0], ", ".join(f(y) for y in c[1:]))
        if isinstance(c, tuple) and c and all(isinstance(y, tuple) for y in c) and not (c[0] and isinstance(c[0][0], str) and c[0][0].islower() and len(c) > 1 and False):
            try:
                return fmt(c)
            except Exception:
                return str(c)
        if isinstance(c, tuple):
            return fmt(c)
        return str(c)
    return "%s:%s%s" % (x.kind, f(cls), (" → " + fmt(x.err)) if x.err is not None else "")


# =========================================================================== decision table

def P(i):
    return ("P", i)


# routine (trait tail or path suffix, name) → expected ordered exits.  Param 1 is `self`.
TABLE = {
    # two-input measures: empty first, then shape, payload (self, other)
    ("DeviationExt", "count_eq"): [("EMPTY", 1), ("SHAPE", 1, 2)],
    ("DeviationExt", "sq_l2_dist"): [("EMPTY", 1), ("SHAPE", 1, 2)],
    ("DeviationExt", "l1_dist"): [("EMPTY", 1), ("SHAPE", 1, 2)],
    ("DeviationExt", "linf_dist"): [("EMPTY", 1), ("SHAPE", 1, 2)],
    ("EntropyExt", "kl_divergence"): [("EMPTY", 1), ("SHAPE", 1, 2)],
    ("EntropyExt", "cross_entropy"): [("EMPTY", 1), ("SHAPE", 1, 2)],
    ("SummaryStatisticsExt", "weighted_var"): [("EMPTY", 1), ("SHAPE", 1, 2)],
    # derived measures: pure delegation with the same receiver/argument roles
    ("DeviationExt", "count_neq"): [("DELEGATE", "count_eq", [1, 2])],
    ("DeviationExt", "l2_dist"): [("DELEGATE", "sq_l2_dist", [1, 2])],
    ("DeviationExt", "mean_abs_err"): [("DELEGATE", "l1_dist", [1, 2])],
    ("DeviationExt", "mean_sq_err"): [("DELEGATE", "sq_l2_dist", [1, 2])],
    ("DeviationExt", "root_mean_sq_err"): [("DELEGATE", "mean_sq_err", [1, 2])],
    ("DeviationExt", "peak_signal_to_noise_ratio"): [("DELEGATE", "mean_sq_err", [1, 2])],
    ("SummaryStatisticsExt", "weighted_std"): [("DELEGATE", "weighted_var", [1, 2, 3])],
    ("SummaryStatisticsExt", "weighted_std_axis"): [("DELEGATE", "weighted_var_axis", [1, 2, 3, 4])],
    ("SummaryStatisticsExt", "kurtosis"): [("DELEGATE", "central_moments", [1, "any"])],
    ("SummaryStatisticsExt", "skewness"): [("DELEGATE", "central_moments", [1, "any"])],
    ("QuantileExt", "quantile_axis_mut"): [("DELEGATE", "quantiles_axis_mut", [1, 2, ("aview1", 3), 4])],
    ("Quantile1dExt", "quantile_mut"): [("DELEGATE", "quantile_axis_mut", [1, "axis0", 2, 3])],
    ("Quantile1dExt", "quantiles_mut"): [("DELEGATE", "quantiles_axis_mut", [1, "axis0", 2, 3])],
    ("SummaryStatisticsExt", "weighted_mean"): [("EMPTY", 1), ("DELEGATE", "weighted_sum", [1, 2])],
    # sum-type routines accept empty input
    ("SummaryStatisticsExt", "weighted_sum"): [("SHAPE", 1, 2)],
    ("SummaryStatisticsExt", "weighted_sum_axis"): [("AXISLEN", 1, 2, 3)],
    ("SummaryStatisticsExt", "weighted_mean_axis"): [("EMPTY", 1), ("DELEGATE", "weighted_sum_axis", [1, 2, 3])],
    ("SummaryStatisticsExt", "weighted_var_axis"): [("EMPTY", 1), ("AXISLEN", 1, 2, 3)],
    # single-input
    ("SummaryStatisticsExt", "mean"): [("EMPTY", 1)],
    ("EntropyExt", "entropy"): [("EMPTY", 1)],
    ("SummaryStatisticsExt", "central_moment"): [("EMPTY", 1)],
    ("SummaryStatisticsExt", "central_moments"): [("EMPTY", 1)],
    ("SummaryStatisticsExt", "harmonic_mean"): [("EMPTY", 1)],
    ("SummaryStatisticsExt", "geometric_mean"): [("EMPTY", 1)],
    ("QuantileExt", "argmin"): [("EMPTY", 1), ("NOORDER*",)],
    ("QuantileExt", "argmax"): [("EMPTY", 1), ("NOORDER*",)],
    ("QuantileExt", "min"): [("EMPTY", 1)],
    ("QuantileExt", "max"): [("EMPTY", 1)],
    ("CorrelationExt", "pearson_correlation"): [("EMPTY", 1)],
    ("CorrelationExt", "cov"): [("EMPTY", 1)],
    # quantiles: q validity (in request order, the tested q is the payload) before emptiness of the axis
    ("QuantileExt", "quantiles_axis_mut"): [("QRANGE", 3, "each"), ("AXIS-EMPTY", 1, 2)],
    ("QuantileExt", "quantile_axis_skipnan_mut"): [("QRANGE", 3, "scalar"), ("AXIS-EMPTY", 1, 2)],
    # skip-NaN index forms
    ("QuantileExt", "argmin_skipnan"): [("ISNONE-FOLD", "indexed_fold_skipnan", 1)],
    ("QuantileExt", "argmax_skipnan"): [("ISNONE-FOLD", "indexed_fold_skipnan", 1)],
    # histogram family
    ("Sqrt<T> as histogram::strategies::BinsBuildingStrategy", "from_array"): [("EMPTY-VIA", 1), ("STRATEGY*",)],
    ("Rice<T> as histogram::strategies::BinsBuildingStrategy", "from_array"): [("EMPTY-VIA", 1), ("STRATEGY*",)],
    ("Sturges<T> as histogram::strategies::BinsBuildingStrategy", "from_array"): [("EMPTY-VIA", 1), ("STRATEGY*",)],
    ("FreedmanDiaconis<T> as histogram::strategies::BinsBuildingStrategy", "from_array"): [("EMPTY-VIA", 1), ("STRATEGY*",)],
    ("Auto<T> as histogram::strategies::BinsBuildingStrategy", "from_array"): [("PROPAGATE", "from_array", 1)],
    ("histogram::strategies::EquiSpaced::<T>", "new"): [("STRATEGY*",)],
    ("histogram::histograms::Histogram::<A>", "add_observation"): [("BINNOTFOUND",)],
    ("histogram::grid::GridBuilder::<B>", "from_array"): [("COLLECT-DELEGATE", "from_array")],
}


def _pred_value(e, q):
    """concrete value of a closure-predicate expression for the element value q (floats, NaN-aware)"""
    e = strip(e)
    if not isinstance(e, tuple):
        raise ValueError(str(e))
    k = e[0]
    if k == "const":
        return e[2]
    if k in ("param", "upvar"):
        return q
    if k in ("field", "downcast", "deref", "ref", "cast"):
        return _pred_value(e[1] if k != "cast" else e[2], q)
    if k == "unop" and e[1] == "Not":
        return not _pred_value(e[2], q)
    if k == "call" and e[1] in ("ge", "le", "gt", "lt", "eq", "ne") and len(e[3]) == 2:
        a, b = _pred_value(e[3][0], q), _pred_value(e[3][1], q)
        return {"ge": a >= b, "le": a <= b, "gt": a > b, "lt": a < b, "eq": a == b, "ne": a != b}[e[1]]
    if k == "binop" and e[1] in ("Ge", "Le", "Gt", "Lt", "Eq", "Ne", "BitAnd", "BitOr"):
        a, b = _pred_value(e[2], q), _pred_value(e[3], q)
        return {"Ge": a >= b, "Le": a <= b, "Gt": a > b, "Lt": a < b, "Eq": a == b, "Ne": a != b, "BitAnd": a and b, "BitOr": a or b}[e[1]]
    if k == "call" and e[1] in ("clone", "raw", "into", "from", "const_raw") and e[3]:
        return _pred_value(e[3][0], q)
    raise ValueError(fmt(e)[:60])


def find_form_qrange(prog, x, qs_param):
    """`if let Some(&q) = qs.iter().find(|q| !(0 ≤ q ≤ 1)) { return Err(InvalidQuantile(q)) }`:
    (ok, detail) or None if the exit is not of this form"""
    from .paths import enumerate_paths
    c = x.cls
    if not c or c[0] not in ("MATCH", "ISNONE"):
        return None
    f = strip(c[1])
    if not (isinstance(f, tuple) and f[0] == "call" and f[1] == "find" and len(f[3]) == 2):
        return None
    rb, re_, chain, bad = producer_chain(prog, x.body, f[3][0])
    if bad is not None or not is_p(re_, qs_param) or any(ch in ("rev", "skip", "step_by", "take") for ch in chain):
        return False, "the request list is not searched in request order (%s via %s)" % (fmt(re_), chain)
    cl = strip(f[3][1])
    if not (isinstance(cl, tuple) and cl[0] == "agg" and cl[1] == "closure"):
        return False, "the search predicate is not a closure"
    cb = prog.bodies.get(cl[2])
    if cb is None:
        return False, "closure body not found"
    tb = prog.tracked(cb)
    try:
        paths = enumerate_paths(tb)
    except Exception as ex:
        return False, "predicate with a loop: %s" % ex
    nan = float("nan")
    for q in (-1.0, -1e-9, -0.0, 0.0, 1e-9, 0.5, 1.0, 1.0000001, 2.0, float("inf"), float("-inf"), nan):
        want = not (q >= 0.0 and q <= 1.0)
        got = None
        try:
            for pi in paths:
                ok = True
                for (bb, de, v) in pi[0]:
                    val = int(bool(_pred_value(de, q)))
                    if isinstance(v, tuple) and v[0] == "not":
                        ok = ok and val not in v[1]
                    else:
                        ok = ok and val == v
                if ok:
                    from .paths import resolve_phi
                    got = bool(_pred_value(resolve_phi(tb, tb.def_expr(0, pi[1]), pi.blocks), q))
                    break
        except ValueError as ex:
            return False, "predicate not evaluable: %s" % ex
        if got is None or got != want:
            return False, "the search predicate answers %s for q = %r, expected %s (invalid iff not 0 ≤ q ≤ 1)" % (got, q, want)
    a3, v3, f3 = err_variant(x.err)
    payload_ok = False
    if v3 == "InvalidQuantile" and f3:
        pl = strip(f3[0])
        while isinstance(pl, tuple) and pl[0] in ("field", "downcast", "deref"):
            pl = strip(pl[1])
        payload_ok = pl == f
    if not payload_ok:
        return False, "the error does not carry the element found by the search: `%s`" % fmt(x.err)
    return True, ""


def err_variant(e):
    e = strip(e)
    if isinstance(e, tuple) and e[0] == "agg":
        return e[1], e[2], e[3]
    return None, None, ()


def is_p(e, i):
    e = obj(e)
    return isinstance(e, tuple) and e[0] == "param" and e[1] == i


def cls_text(x):
    c = x.cls

    def f(v):
        if isinstance(v, tuple) and v and isinstance(v[0], str) and v[0].isupper() and not v[0].islower():
            if v[0] in ("DELEGATE",):
                return "DELEGATE(%s; %s)" % (v[1], ", ".join(fmt(a) for a in v[2]))
            return "%s(%s)" % (v[0], ", ".join(f(y) for y in v[1:]))
        if isinstance(v, tuple):
            return fmt(v)
        return str(v)
    return ("%s:" % x.kind) + (f(c) if c is not None else "?")


def shape_payload_ok(err, a, b):
    """MultiInputError::ShapeMismatch(ShapeMismatch{first_shape: shape(a).to_vec(), second_shape: shape(b).to_vec()})"""
    adt, var, fields = err_variant(err)
    if not (adt and adt.endswith("MultiInputError") and var == "ShapeMismatch" and fields):
        return False, "error value is `%s`, expected MultiInputError::ShapeMismatch" % fmt(err)
    adt2, var2, f2 = err_variant(fields[0])
    if not (adt2 and adt2.endswith("ShapeMismatch") and len(f2) == 2):
        return False, "payload is `%s`" % fmt(fields[0])

    def shape_of(e):
        e = strip(e)
        for _ in range(6):
            if isinstance(e, tuple) and e[0] == "call" and e[1] in ("to_vec", "to_owned", "into", "from", "collect", "iter", "cloned", "clone") and e[3]:
                e = strip(e[3][0])
                continue
            break
        if isinstance(e, tuple) and e[0] == "call" and e[1] == "shape" and e[3]:
            return obj(e[3][0])
        return None
    s1, s2 = shape_of(f2[0]), shape_of(f2[1])
    if s1 is None or s2 is None:
        return False, "payload shapes are `%s`, `%s`" % (fmt(f2[0]), fmt(f2[1]))
    ok = obj(a) == s1 and obj(b) == s2
    return ok, ("first_shape = shape(%s), second_shape = shape(%s)" % (fmt(s1), fmt(s2)))


def from_impl_map(prog, body):
    """variant map of a `From<X> for Y` impl: {'*' or source variant: target variant}"""
    out = {}
    sw = [bb for bb in body.live_blocks() if body.term(bb)["k"] == "switch"]
    r = Routine.__new__(Routine)
    r.prog, r.body = prog, body
    if not sw:
        e = strip(body.return_expr())
        adt, var, _ = err_variant(e)
        out["*"] = var
        return out
    bb = sw[0]
    de = strip(body.switch_discr_expr(bb))
    src_ty = body.raw["inputs"][0]
    adt = prog.adts.get(src_ty)
    t = body.term(bb)
    arms = list(t["arms"]) + [("otherwise", t["otherwise"])]
    covered = set()
    for v, tgt in arms:
        fds = r.first_ret_defs(tgt, bb)
        vs = set()
        for d in fds:
            if d in (None, "loop"):
                continue
            a2, var, _ = err_variant(body.def_expr(0, d))
            vs.add(var)
        if v == "otherwise":
            names = [vv["name"] for i, vv in enumerate(adt["variants"]) if i not in covered] if adt else ["?"]
        else:
            covered.add(v)
            names = [adt["variants"][v]["name"]] if adt and v < len(adt["variants"]) else [str(v)]
        for nme in names:
            if body.term(tgt)["k"] != "unreachable":
                out[nme] = "|".join(sorted(x for x in vs if x)) or None
    return out


FROM_TABLE = {
    ("errors::MinMaxError", "errors::EmptyInput"): {"*": "EmptyInput"},
    ("errors::MultiInputError", "errors::EmptyInput"): {"*": "EmptyInput"},
    ("errors::MultiInputError", "errors::ShapeMismatch"): {"*": "ShapeMismatch"},
    ("errors::QuantileError", "errors::EmptyInput"): {"*": "EmptyInput"},
    ("histogram::errors::BinsBuildError", "errors::EmptyInput"): {"*": "EmptyInput"},
    ("histogram::errors::BinsBuildError", "errors::MinMaxError"): {"EmptyInput": "EmptyInput", "UndefinedOrder": "Strategy"},
}


def rule_from_impls(ctx, prog, rule="R6"):
    n = 0
    for (to, fr), want in FROM_TABLE.items():
        ms = [b for b in prog.bodies.values() if b.name == "from" and (b.raw.get("impl_trait") or "").endswith("convert::From")
              and b.raw.get("impl_self") == to and b.raw.get("inputs") == [fr]]
        key = "From<%s> for %s" % (fr.split("::")[-1], to.split("::")[-1])
        if len(ms) != 1:
            ctx.ob(rule, key + "/exists", False, "", "anchor missing: %d impls" % len(ms), what="anchor missing")
            continue
        n += 1
        got = from_impl_map(prog, ms[0])
        ok = all(got.get(k) == v for k, v in want.items()) and set(got) == set(want)
        ctx.ob(rule, key + "/variant-map", ok, ms[0].where(),
               "maps %s" % got if ok else "conversion maps %s, expected %s" % (got, want),
               what="error conversion changes the variant")
        if fr.endswith("ShapeMismatch") and ok:
            e = strip(ms[0].return_expr())
            _, _, fields = err_variant(e)
            okp = bool(fields) and is_p(fields[0], 1)
            ctx.ob(rule, key + "/payload", okp, ms[0].where(), "payload is the converted error unchanged" if okp else
                   "payload is `%s`" % (fmt(fields[0]) if fields else "?"), what="shape payload dropped by conversion")
    return n


def rule_r6(ctx, prog, rule="R6", only=None):
    from .rules_layout import producer_chain, axis_const
    n_routines = 0
    n_exits = 0
    untabled = []
    tabled_bodies = set()
    for (owner, name), spec in TABLE.items():
        if only is not None and (owner, name) not in only:
            continue
        ms = [b for b in prog.bodies.values() if b.name == name and not b.is_closure and
              ((b.raw.get("impl_trait") or "").endswith(owner) or ("<" + (b.raw.get("impl_self") or "") + " as " + (b.raw.get("impl_trait") or "")).endswith(owner)
               or (owner + "::" + name) == b.key or b.key.endswith(owner + "::" + name)
               or ("%s as %s" % (b.raw.get("impl_self"), b.raw.get("impl_trait"))).endswith(owner))]
        fk = "%s::%s" % (owner.split(" as ")[0].split("::")[-1], name)
        if len(ms) != 1:
            ctx.ob(rule, fk + "/exists", False, "", "anchor missing: %d bodies match %s::%s" % (len(ms), owner, name),
                   what="anchor missing")
            continue
        body = ms[0]
        tabled_bodies.add(body.key)
        n_routines += 1
        # private boolean predicates (`is_valid_quantile(q)`, `is_empty_range(min, max)`) are read in place and their constant
        # results threaded to the branch they select, so that `if !pred(x) { return Err }` is the guard sequence the predicate spells
        from .facts import inline_calls, thread_constant_flags
        _pred = lambda cb: (not cb.is_closure) and cb.key not in prog.exported and (cb.raw.get("output") == "bool") and len(cb.blocks) <= 20 \
            and not cb.raw.get("unsafe_fn")
        body_g = thread_constant_flags(prog, inline_calls(prog, body, _pred))
        r = Routine(prog, body_g)
        err_ty = last_generic(body.raw.get("output", ""))
        exits = r.exits
        seq = [x for x in exits if x.kind in ("err", "delegate")]
        n_exits += len(seq)
        pos = 0
        matched_positions = {}   # index in exits list of matched error exits

        def ob(i, sname, ok, found, detail, x=None):
            key = "%s/%d:%s" % (fk, i, sname) + ("" if ok else "/found:" + found)
            ctx.ob(rule, key, ok, (x.body.where(x.bb, "term") if x is not None else body.where()), detail,
                   what="error decision table")

        for i, sp in enumerate(spec):
            kind = sp[0]
            if kind.endswith("*"):
                # zero or more
                while pos < len(seq):
                    x = seq[pos]
                    adt, var, _ = err_variant(x.err) if x.err is not None else (None, None, ())
                    if kind == "STRATEGY*" and var == "Strategy" and x.kind == "err":
                        ob(i, "STRATEGY", True, "", "guard %s → Strategy" % cls_text(x), x)
                        pos += 1
                        continue
                    if kind == "NOORDER*" and x.cls and x.cls[0] == "NOORDER" and var == "UndefinedOrder":
                        ob(i, "NOORDER", True, "", "partial_cmp None → UndefinedOrder", x)
                        pos += 1
                        continue
                    break
                continue
            if pos >= len(seq):
                ob(i, kind, False, "nothing", "expected exit %s is missing: the routine has no such guard (extracted exits: %s)"
                   % (sp, [cls_text(x) for x in seq]))
                continue
            x = seq[pos]
            c = x.cls or ("?",)
            adt, var, fields = err_variant(x.err) if x.err is not None else (None, None, ())
            okv = True
            det = ""
            if kind == "EMPTY":
                if c[0] == "EMPTY" and is_p(c[1], sp[1]):
                    okv = var == "EmptyInput"
                    det = "emptiness of `%s` → %s" % (fmt(c[1]), fmt(x.err))
                    pos += 1
                elif c[0] == "DIM-EMPTY" and is_p(c[1], sp[1]):
                    # conjunction over both dimensions of a 2-D receiver
                    dims = []
                    p2 = pos
                    while p2 < len(seq) and seq[p2].cls and seq[p2].cls[0] == "DIM-EMPTY" and is_p(seq[p2].cls[1], sp[1]):
                        dims.append(seq[p2].cls[2])
                        a2, v2, _ = err_variant(seq[p2].err)
                        okv = okv and v2 == "EmptyInput"
                        p2 += 1
                    okv = okv and len(set(dims)) >= 2
                    det = "every dimension checked: %s" % dims
                    pos = p2
                else:
                    okv = False
                    det = "first decision is %s, expected emptiness of the whole input" % cls_text(x)
                    pos += 1
                ob(i, "EMPTY", okv, cls_text(x), det + ("" if okv else " (error value %s)" % fmt(x.err)), x)
                matched_positions[exits.index(x)] = "EMPTY"
                continue
            if kind == "SHAPE":
                if c[0] == "SHAPE" and is_p(c[1], sp[1]) and is_p(c[2], sp[2]) or (c[0] == "SHAPE" and is_p(c[2], sp[1]) and is_p(c[1], sp[2])):
                    okp, det = shape_payload_ok(x.err, ("param", sp[1], None), ("param", sp[2], None))
                    # compare through obj(): params only by index
                    a_, b_ = None, None
                    adt_, var_, f_ = err_variant(x.err)
                    okp2, det = shape_payload_roles(x.err, sp[1], sp[2])
                    ob(i, "SHAPE", okp2, cls_text(x) + "/payload:" + det, "shape guard on (self, argument); " + det, x)
                    if okp2:
                        matched_positions[exits.index(x)] = "SHAPE"
                else:
                    ob(i, "SHAPE", False, cls_text(x), "expected the same-shape guard here, found %s" % cls_text(x), x)
                pos += 1
                continue
            if kind == "AXISLEN":
                if c[0] == "AXISLEN" and is_p(c[1], sp[1]) and is_p(c[2], sp[2]) and is_p(c[3], sp[3]):
                    okp2, det = shape_payload_roles(x.err, sp[1], sp[3])
                    ob(i, "AXISLEN", okp2, cls_text(x) + "/payload:" + det, "axis length vs weights length; " + det, x)
                    if okp2:
                        matched_positions[exits.index(x)] = "AXISLEN"
                else:
                    ob(i, "AXISLEN", False, cls_text(x), "expected len(axis) != len(weights) guard, found %s" % cls_text(x), x)
                pos += 1
                continue
            if kind == "AXIS-EMPTY":
                okc = c[0] == "AXIS-EMPTY" and is_p(c[1], sp[1]) and is_p(c[2], sp[2])
                ob(i, "AXIS-EMPTY", okc and var == "EmptyInput", cls_text(x),
                   "axis length 0 → %s" % fmt(x.err) if okc else "expected emptiness of the chosen axis, found %s" % cls_text(x), x)
                if okc:
                    matched_positions[exits.index(x)] = "AXIS-EMPTY"
                pos += 1
                continue
            if kind == "QRANGE":
                got = {}
                p2 = pos
                while p2 < len(seq) and seq[p2].cls and seq[p2].cls[0] in ("QLOW", "QHIGH") and len(got) < 2:
                    got[seq[p2].cls[0]] = seq[p2]
                    p2 += 1
                if set(got) != {"QLOW", "QHIGH"}:
                    ff = find_form_qrange(prog, x, sp[1]) if sp[2] == "each" else None
                    if ff is not None:
                        okq, det = ff
                        ob(i, "QRANGE", okq, "QRANGE/" + det if not okq else "QRANGE/", "first element of the request list, in request order, that fails "
                           "0 ≤ q ≤ 1 (predicate evaluated on a complete sign/boundary domain) is reported" if okq else det, x)
                        if okq:
                            matched_positions[exits.index(x)] = "QRANGE"
                        pos += 1
                        continue
                    ob(i, "QRANGE", False, cls_text(x), "expected the q ∈ [0,1] validation (both bounds) first, found %s"
                       % [cls_text(y) for y in seq[pos:pos + 2]], x)
                    pos = max(p2, pos + 1)
                    continue
                okq = True
                dets = []
                for side, y in got.items():
                    subj = strip(y.cls[1])
                    a3, v3, f3 = err_variant(y.err)
                    if v3 != "InvalidQuantile" or not f3 or strip(f3[0]) != subj and obj(f3[0]) != obj(subj):
                        okq = False
                        dets.append("%s reports `%s` for the tested `%s`" % (side, fmt(y.err), fmt(subj)))
                    if sp[2] == "scalar":
                        if not is_p(subj, sp[1]):
                            okq = False
                            dets.append("%s tests `%s`, not the q parameter" % (side, fmt(subj)))
                    else:
                        # element of an in-order iteration over the qs parameter
                        it = None
                        for z in walk(subj):
                            if z[0] == "call" and z[1] == "next" and z[3]:
                                it = z[3][0]
                                break
                        if it is None:
                            okq = False
                            dets.append("%s: tested value `%s` is not an iteration element" % (side, fmt(subj)))
                        else:
                            rb, re_, chain, bad = producer_chain(prog, y.body, it)
                            if bad is not None or not is_p(re_, sp[1]) and not (isinstance(strip(re_), tuple) and strip(re_)[0] == "param"):
                                okq = False
                                dets.append("%s: qs are not visited in request order (%s via %s)" % (side, fmt(re_), chain))
                ob(i, "QRANGE", okq, "QRANGE/" + ";".join(dets), "both bounds tested, payload = the tested q, first failure returns"
                   if okq else "; ".join(dets), x)
                if okq:
                    for y in got.values():
                        matched_positions[exits.index(y)] = "QRANGE"
                pos = p2
                continue
            if kind == "DELEGATE":
                okd = c[0] == "DELEGATE" and c[1] == sp[1]
                det = ""
                if okd:
                    args = c[2]
                    for ai, role in enumerate(sp[2]):
                        if ai >= len(args):
                            okd = False
                            det = "missing argument %d" % ai
                            break
                        a = args[ai]
                        if role == "any":
                            continue
                        if role == "axis0":
                            if axis_const(a) != 0:
                                okd = False
                                det = "argument %d is `%s`, expected Axis(0)" % (ai, fmt(a))
                            continue
                        if isinstance(role, tuple) and role[0] == "aview1":
                            found = [z for z in walk(a) if z[0] == "param"]
                            if not (strip(a)[0] == "call" and strip(a)[1] == "aview1" and len(found) == 1 and found[0][1] == role[1]):
                                okd = False
                                det = "argument %d is `%s`, expected a one-element view of parameter %d" % (ai, fmt(a), role[1])
                            continue
                        if not is_p(a, role):
                            okd = False
                            det = "argument %d of the delegate is `%s`, expected parameter #%d (receiver/argument roles must be kept)" % (ai, fmt(a), role)
                            break
                ob(i, "DELEGATE(%s)" % sp[1], okd, cls_text(x) + ("/" + det if det else ""),
                   "errors are exactly those of %s on the same operands" % sp[1] if okd else
                   ("expected delegation to %s, found %s %s" % (sp[1], cls_text(x), det)), x)
                if okd:
                    matched_positions[exits.index(x)] = "DELEGATE"
                pos += 1
                continue
            if kind == "ISNONE-FOLD":
                okc = c[0] == "ISNONE" and isinstance(strip(c[1]), tuple) and strip(c[1])[0] == "call" and strip(c[1])[1] == sp[1] \
                    and is_p(strip(c[1])[3][0], sp[2]) and var == "EmptyInput"
                ob(i, "ISNONE-FOLD", okc, cls_text(x), "EmptyInput iff the NaN-skipping fold over self yields None" if okc else
                   "expected `EmptyInput iff fold result is None`, found %s → %s" % (cls_text(x), fmt(x.err)), x)
                pos += 1
                continue
            if kind == "EMPTY-VIA":
                # emptiness reported as BinsBuildError::EmptyInput: directly, or through min()/max() of the same array + From<MinMaxError>
                okc = False
                det = cls_text(x)
                if c[0] == "EMPTY" and is_p(c[1], sp[1]) and var == "EmptyInput":
                    okc = True
                    pos += 1
                elif c[0] == "DELEGATE" and c[1] in ("min", "max") and is_p(c[2][0], sp[1]):
                    okc = True
                    pos += 1
                # further delegations to min/max of the same array are part of the same decision
                while okc and pos < len(seq) and seq[pos].cls and seq[pos].cls[0] == "DELEGATE" and seq[pos].cls[1] in ("min", "max") \
                        and is_p(seq[pos].cls[2][0], sp[1]):
                    pos += 1
                ob(i, "EMPTY-VIA", okc, det, "emptiness decided first (directly or via min/max + From<MinMaxError>)" if okc else
                   "first error exit is %s; expected the emptiness decision" % det, x)
                if okc:
                    matched_positions[exits.index(x)] = "EMPTY"
                continue
            if kind == "BINNOTFOUND":
                inner = strip(c[1]) if len(c) > 1 else None
                okc = c[0] in ("MATCH", "ISNONE") and isinstance(inner, tuple) and inner[0] == "call" and inner[1] == "index_of" and var == "BinNotFound"
                if okc:
                    g = strip(inner[3][0])
                    okc = isinstance(g, tuple) and g[0] == "field" and g[2] == "grid" and is_p(g[1], 1) and is_p(inner[3][1], 2)
                ob(i, "BINNOTFOUND", okc, cls_text(x), "None from self.grid.index_of(observation) → BinNotFound" if okc else
                   "found %s → %s" % (cls_text(x), fmt(x.err)), x)
                pos += 1
                continue
            if kind == "PROPAGATE":
                inner = strip(c[1]) if len(c) > 1 else None
                okc = c[0] == "MATCH" and isinstance(inner, tuple) and inner[0] == "call" and inner[1] == sp[1] and is_p(inner[3][0], sp[2])
                ob(i, "PROPAGATE", okc, cls_text(x), "error of the delegate on the same array is returned" if okc else "found %s" % cls_text(x), x)
                pos += 1
                continue
            if kind == "COLLECT-DELEGATE":
                okc = False
                det = cls_text(x)
                tgt = strip(c[1]) if len(c) > 1 else None
                if c[0] == "OTHER" and isinstance(tgt, tuple) and tgt[0] == "call" and tgt[1] == "collect":
                    m = strip(tgt[3][0])
                    if isinstance(m, tuple) and m[0] == "call" and m[1] == "map" and len(m[3]) == 2:
                        clo = strip(m[3][1])
                        if isinstance(clo, tuple) and clo[0] == "agg" and clo[1] == "closure":
                            cb = prog.bodies.get(clo[2])
                            if cb is not None:
                                re_ = strip(cb.return_expr())
                                okc = isinstance(re_, tuple) and re_[0] == "call" and re_[1] == sp[1] and is_p(re_[3][0], 2)
                if not okc and c[0] == "DELEGATE" and c[1] == sp[1] and len(c[2]) == 1:
                    # loop form: `for column in array.axis_iter(..) { builders.push(B::from_array(&column)?) }` – the delegate is
                    # applied to the item of an undisturbed traversal of the input, the first error leaves the routine
                    from .facts import walk as _walk
                    nxt = [y for y in _walk(strip(c[2][0])) if isinstance(y, tuple) and y[0] == "call" and y[1] == "next" and y[3]]
                    if nxt:
                        rb_, re_, chain_, bad_ = producer_chain(prog, x.body, nxt[0][3][0])
                        okc = bad_ is None and is_p(re_, 1) and not rb_.is_closure
                        a0_ = strip(c[2][0])
                        for _ in range(3):
                            if isinstance(a0_, tuple) and a0_[0] in ("ref", "deref"):
                                a0_ = strip(a0_[1])
                        if not okc and isinstance(a0_, tuple) and a0_[0] == "call" and a0_[1] in ("index_axis", "column") and is_p(a0_[3][0], 1):
                            # index form: column k of the input for k ranging over 0..n (GridBuilder::from_array/column-order checks the range)
                            okc = any(isinstance(y, tuple) and y[0] == "call" and y[1] == "next" for y in _walk(a0_[3][-1]))
                ob(i, "COLLECT-DELEGATE", okc, det, "first error of B::from_array over the columns is returned" if okc else "found %s" % det, x)
                pos += 1
                continue
            ob(i, kind, False, "unsupported-spec", "internal: unsupported spec %s" % (sp,))
        # anything left over is an undocumented error exit
        for x in seq[pos:]:
            if x.kind == "delegate" and x.cls and x.cls[0] == "DELEGATE" and "EMPTY" in matched_positions.values():
                # `other_routine(self, ..)?` after this routine's own emptiness decision, where the other routine's only documented error is
                # the emptiness of the same operand: the propagated error cannot occur any more (and would be the same EmptyInput)
                tsp = [v for (o_, n_), v in TABLE.items() if n_ == x.cls[1]]
                if tsp and all(r_ == ("EMPTY", 1) for r_ in tsp[0]) and x.cls[2] and is_p(x.cls[2][0], 1):
                    ctx.ob(rule, "%s/propagates:%s" % (fk, x.cls[1]), True, x.body.where(x.bb, "term"),
                           "propagates %s(self, ..)'s only documented error (empty input), already decided here" % x.cls[1])
                    continue
            key = "%s/extra/found:%s" % (fk, cls_text(x))
            ctx.ob(rule, key, False, x.body.where(x.bb, "term"),
                   "error exit %s → %s is not in the property's decision table for this routine" % (cls_text(x), fmt(x.err) if x.err is not None else "?"),
                   what="undocumented error exit")
        # no panic may precede a documented error exit
        last_err = max(matched_positions) if matched_positions else -1
        first_err = min(matched_positions) if matched_positions else -1
        # an assert/panic! may not precede any documented error decision; an unwrapped fallible call may follow the decision that
        # excludes its failure (the emptiness guard) but not precede every error decision
        bad_panics = [x for j, x in enumerate(exits) if x.kind == "panic" and
                      (j < first_err if (x.cls and x.cls[0] == "UNWRAP") else j < last_err)]
        okp = not bad_panics
        ctx.ob(rule, "%s/no-panic-before-error-exits" % fk + ("" if okp else "/found:" + ";".join(cls_text(x) for x in bad_panics)),
               okp, bad_panics[0].body.where(bad_panics[0].bb, "term") if bad_panics else body.where(),
               "no assert/panic is evaluated before the documented error decisions" if okp else
               "a panic (%s) is decided before the error exit(s) %s: the documented error surfaces as a panic for some inputs"
               % ("; ".join(cls_text(x) for x in bad_panics), sorted(set(matched_positions.values()))),
               what="panic precedes documented error")
        # no success value may be produced on a path that has not passed every documented error decision: each definition of the
        # return place that is not an error must be dominated by every matched decision of this body (decisions evaluated per
        # element inside a loop are exempt: zero iterations legitimately pass none of them)
        gb = r.body
        bypass = []
        n_succ = 0
        for bb in gb.live_blocks():
            blk = gb.blocks[bb]
            ds_ = [(bb, si) for si, s in enumerate(blk["stmts"]) if s["k"] == "assign" and s["dst"]["l"] == 0 and not s["dst"]["p"]]
            t_ = blk["term"]
            if t_["k"] == "call" and t_["dst"]["l"] == 0 and not t_["dst"]["p"]:
                ds_.append((bb, "term"))
            for d in ds_:
                k_, _p = r.ret_kind(d)
                if k_ not in ("ok", "call", "other") or not gb.can_reach_return(bb):
                    continue
                n_succ += 1
                for j, nm_ in sorted(matched_positions.items()):
                    x = exits[j]
                    if x.body is not gb or x.kind != "err" or x.bb == bb or gb.term(x.bb)["k"] != "switch":
                        continue
                    if any(x.bb in gb.reachable_from(s_) for s_ in gb.succ(x.bb)):
                        continue          # decided per element of a loop
                    if not gb.dominates(x.bb, bb):
                        bypass.append((nm_, d, x))
        okb = not bypass
        ctx.ob(rule, "%s/no-success-before-error-decisions" % fk + ("" if okb else "/found:" + ";".join(sorted(set(nm_ for nm_, _, _ in bypass)))),
               okb, gb.where(*bypass[0][1]) if bypass else body.where(),
               "%d success definition(s) of the return value, each dominated by every documented error decision" % n_succ if okb else
               "a success value is returned on a path that bypasses the documented %s decision (%s): inputs on which the property "
               "demands that error receive Ok" % (bypass[0][0], cls_text(bypass[0][2])),
               what="success bypasses documented error decision")
    # untabled fallible routines: listed, not alarmed
    for b in (prog.bodies.values() if only is None else []):
        if b.is_closure or b.key in tabled_bodies:
            continue
        out = b.raw.get("output", "")
        if out.startswith(RESULT) and "fmt::Error" not in out and b.key in prog.exported:
            untabled.append(b.key)
    ctx.extras["R6_routines"] = n_routines
    ctx.extras["R6_error_exits"] = n_exits
    ctx.extras["R6_untabled_public_fallible_routines"] = untabled
    return n_routines, n_exits


def shape_payload_roles(err, i, j):
    adt, var, fields = err_variant(err)
    if not (adt and adt.endswith("MultiInputError") and var == "ShapeMismatch" and fields):
        return False, "error value is `%s`, expected MultiInputError::ShapeMismatch" % fmt(err)
    adt2, var2, f2 = err_variant(fields[0])
    if not (adt2 and adt2.endswith("ShapeMismatch") and len(f2) == 2):
        return False, "payload is `%s`" % fmt(fields[0])

    def shape_of(e):
        e = strip(e)
        for _ in range(6):
            if isinstance(e, tuple) and e[0] == "call" and e[1] in ("to_vec", "to_owned", "into", "from", "collect", "iter", "cloned", "clone") and e[3]:
                e = strip(e[3][0])
                continue
            break
        if isinstance(e, tuple) and e[0] == "call" and e[1] == "shape" and e[3]:
            return obj(e[3][0])
        return None
    s1, s2 = shape_of(f2[0]), shape_of(f2[1])
    if s1 is None or s2 is None:
        return False, "payload shapes are `%s`, `%s`" % (fmt(f2[0]), fmt(f2[1]))
    ok = is_p(s1, i) and is_p(s2, j)
    return ok, "first_shape=shape(%s),second_shape=shape(%s)" % (fmt(s1), fmt(s2))
