//! Tiny positives that every expected-zero rule must flag on every run (DESIGN.md §2.7).
//! This crate is only type-checked by the fact extractor; nothing here is ever run.
#![allow(dead_code, unused_variables, unused_mut, clippy::all)]
use ndarray::prelude::*;
use ndarray::{Data, DataMut, Zip};
use num_traits::{Signed, Zero};
use rand::prelude::*;
use std::ops::AddAssign;

/// R1: a sum that reads the memory-order slice.
pub fn fix_r1_memory_order<S: Data<Elem = f64>, D: Dimension>(a: &ArrayBase<S, D>) -> f64 {
    a.as_slice_memory_order().unwrap().iter().sum()
}

/// R8: an axis parameter that is ignored in favour of a constant.
pub fn fix_r8_const_axis<S: Data<Elem = f64>>(a: &ArrayBase<S, Ix2>, axis: Axis) -> usize {
    a.len_of(Axis(0))
}

/// R9: operands paired in reverse.
pub fn fix_r9_reversed<S: Data<Elem = f64>>(a: &ArrayBase<S, Ix1>, w: &ArrayBase<S, Ix1>) -> f64 {
    a.iter().zip(w.iter().rev()).fold(0., |acc, (&d, &w)| acc + d * w)
}

/// R14: randomness outside the selection routines.
pub fn fix_r14_random(a: &Array1<f64>) -> f64 {
    let mut rng = thread_rng();
    a[rng.gen_range(0..a.len())]
}

/// R3: an unsafe block outside the audited module.
pub fn fix_r3_unsafe(a: &Array1<f64>) -> f64 {
    unsafe { *a.uget(0) }
}

/// R4: a non-permuting write primitive applied to caller data.
pub fn fix_r4_fill<S: DataMut<Elem = f64>>(a: &mut ArrayBase<S, Ix1>) {
    let first = a[0];
    a.fill(first);
}

/// R4: element of caller data overwritten through a Zip producer.
pub fn fix_r4_zip_store<S: DataMut<Elem = f64>>(a: &mut ArrayBase<S, Ix1>, b: &Array1<f64>) {
    Zip::from(a).and(b).for_each(|x, &y| *x = y);
}

/// R5: a position-taking routine with a path that never looks at the position.
pub fn fix_r5_unchecked_position<S: Data<Elem = i32>>(a: &ArrayBase<S, Ix1>, i: usize) -> i32 {
    let n = a.len();
    if n == 1 {
        a[0]
    } else {
        a[i]
    }
}

/// R18: an unguarded decrement.
pub fn fix_r18_underflow<S: Data<Elem = i32>>(a: &ArrayBase<S, Ix1>, pivot_index: usize) -> usize {
    let mut j = a.len() - 1;
    while a[j] > 0 {
        j -= 1;
    }
    j
}

/// R19: a "squared distance" kernel that forgets the square.
pub fn fix_r19_not_squared<A, S, D>(a: &ArrayBase<S, D>, b: &ArrayBase<S, D>) -> A
where
    A: AddAssign + Clone + Signed,
    S: Data<Elem = A>,
    D: Dimension,
{
    let mut result = A::zero();
    Zip::from(a).and(b).for_each(|x, y| {
        let diff = x.clone() - y.clone();
        result += diff;
    });
    result
}

/// R6: guards in the wrong order (shape before emptiness) – the extractor must see that order.
pub fn fix_r6_guard_order(a: &Array1<f64>, b: &Array1<f64>) -> Result<f64, ndarray_stats::errors::MultiInputError> {
    use ndarray_stats::errors::{MultiInputError, ShapeMismatch};
    if a.shape() != b.shape() {
        return Err(MultiInputError::ShapeMismatch(ShapeMismatch {
            first_shape: a.shape().to_vec(),
            second_shape: b.shape().to_vec(),
        }));
    }
    if a.len() == 0 {
        return Err(MultiInputError::EmptyInput);
    }
    Ok(0.)
}

/// R10/R19: a logarithm without the zero branch.
pub fn fix_r10_no_zero_branch(a: &Array1<f64>) -> f64 {
    -a.mapv(|x| x * x.ln()).sum()
}

/// R21: a compaction that returns the wrong prefix (`..j` instead of `..i`).
pub fn fix_r21_wrong_prefix(mut view: ArrayViewMut1<'_, f64>) -> ArrayViewMut1<'_, f64> {
    use ndarray::s;
    use ndarray_stats::MaybeNan;
    if view.is_empty() {
        return view.slice_move(s![..0]);
    }
    let mut i = 0;
    let mut j = view.len() - 1;
    loop {
        while i <= j && !view[i].is_nan() {
            i += 1;
        }
        while j > i && view[j].is_nan() {
            j -= 1;
        }
        if i >= j {
            return view.slice_move(s![..j]);
        } else {
            view.swap(i, j);
            i += 1;
            j -= 1;
        }
    }
}

/// R22: a Hoare partition whose left scan lets elements equal to the pivot stay on the left.
pub fn fix_r22_not_strict<S: DataMut<Elem = i32>>(a: &mut ArrayBase<S, Ix1>, pivot_index: usize) -> usize {
    let pivot_value = a[pivot_index].clone();
    a.swap(pivot_index, 0);
    let n = a.len();
    let mut i = 1;
    let mut j = n - 1;
    loop {
        loop {
            if i > j {
                break;
            }
            if a[i] > pivot_value {
                break;
            }
            i += 1;
        }
        while pivot_value <= a[j] {
            if j <= 1 {
                break;
            }
            j -= 1;
        }
        if i >= j {
            break;
        } else {
            a.swap(i, j);
            i += 1;
            j -= 1;
        }
    }
    a.swap(0, i - 1);
    i - 1
}

/// R24: a quickselect whose right-hand recursion rebases the index by k instead of k+1
/// (`fix_r22_not_strict` stands in for the partition routine; only its contract is used).
pub fn fix_r24_rebase_wrong<S: DataMut<Elem = i32>>(a: &mut ArrayBase<S, Ix1>, i: usize) -> i32 {
    let n = a.len();
    if n == 1 {
        a[i].clone()
    } else {
        let k = fix_r22_not_strict(a, n / 2);
        if i < k {
            fix_r24_rebase_wrong(&mut a.slice_axis_mut(Axis(0), ndarray::Slice::from(..k)), i)
        } else if i == k {
            a[i].clone()
        } else {
            fix_r24_rebase_wrong(&mut a.slice_axis_mut(Axis(0), ndarray::Slice::from(k + 1..)), i - k)
        }
    }
}

/// R25: a bulk selection that never writes the exactly-found entry.
pub fn fix_r25_found_not_written(mut array: ArrayViewMut1<'_, i32>, indexes: &mut [usize], values: &mut [i32]) {
    let n = array.len();
    if indexes.is_empty() {
        return;
    }
    if n == 1 {
        values[0] = array[0].clone();
        return;
    }
    let k = fix_r22_not_strict(&mut array, n / 2);
    let (found_exact, split) = match indexes.binary_search(&k) {
        Ok(index) => (true, index),
        Err(index) => (false, index),
    };
    let (smaller_indexes, other_indexes) = indexes.split_at_mut(split);
    let (smaller_values, other_values) = values.split_at_mut(split);
    let (bigger_indexes, bigger_values) = if found_exact {
        (&mut other_indexes[1..], &mut other_values[1..])
    } else {
        (other_indexes, other_values)
    };
    fix_r25_found_not_written(array.slice_axis_mut(Axis(0), ndarray::Slice::from(..k)), smaller_indexes, smaller_values);
    bigger_indexes.iter_mut().for_each(|x| *x -= k + 1);
    fix_r25_found_not_written(array.slice_axis_mut(Axis(0), ndarray::Slice::from(k + 1..)), bigger_indexes, bigger_values);
}

/// R26: an "interpolation" that overshoots the higher neighbour (lower + 2·(higher − lower)).
pub fn fix_r26_overshoot<T>(lower: Option<T>, higher: Option<T>, _q: f64, _len: usize) -> T
where
    T: num_traits::NumOps + Clone + num_traits::FromPrimitive,
{
    let two = T::from_u8(2).unwrap();
    let lower = lower.unwrap();
    let higher = higher.unwrap();
    lower.clone() + (higher.clone() - lower.clone()) * two
}
