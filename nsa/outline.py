"""Loop → closure normalisation for lane loops.

`for (a, b) in X.lanes_mut(ax).into_iter().zip(Y.lanes_mut(ax)) { BODY }` pairs the lanes of two arrays by logical position exactly as
`Zip::from(X.lanes_mut(ax)).and(Y.lanes_mut(ax)).for_each(|a, b| BODY)` does.  The rules that read per-lane work (R4 effects, R9
pairing, R13 strategy application, R30 result integrity, R12 call sites) are written against the second form; this pass rewrites the
first into the second on the extracted MIR facts, before any rule runs:

  * the loop body becomes a synthetic closure body `<parent>::{closure#lanes@bbH}`: a copy of the parent's blocks with every local
    shifted by 4 (0 = (), 1 = environment, 2/3 = the two lane items), a prologue that loads every local of the parent the loop body
    reads from the environment, the item destructuring replaced by moves of the parameters, back edges turned into `return`;
  * in the parent the pre-header jumps to `Zip::from(X).and(Y).for_each(closure{captures…})` (call terminators copied from the shape
    rustc emits for ndarray's Zip) and continues at the loop's exit.

The rewrite is only done when the shape is exactly that (a `next` on an iterator whose initial value is zip(into_iter(P1), into_iter(P2))
or zip(into_iter(P1), P2) with P1, P2 lane producers of ndarray; the loop is left only through its header; no value defined in the
body is read after the loop), so that nothing is assumed about code it does not understand.  Nothing is executed."""
import json
from .facts import Program, callee_name, ds, _remap

LANE_PRODUCERS = {"lanes_mut", "lanes", "axis_iter", "axis_iter_mut", "outer_iter", "outer_iter_mut", "rows", "rows_mut",
                  "columns", "columns_mut", "genrows", "genrows_mut", "gencolumns", "gencolumns_mut"}
K = 4        # locals of the synthetic closure before the copy of the parent's locals


def _peel_into_iter(e):
    e = ds(e)
    for _ in range(4):
        if isinstance(e, tuple) and e[0] == "call" and e[1] == "into_iter" and len(e[3]) == 1:
            e = ds(e[3][0])
        else:
            break
    return e


def _producer_local(tb, e):
    """the local that holds the lane producer `e` (a call expression): the destination of that call"""
    e = ds(e)
    if not (isinstance(e, tuple) and e[0] == "call" and e[1] in LANE_PRODUCERS and len(e) > 4):
        return None
    for bb, t in tb.calls():
        if ds(tb.call_expr(bb)) == e and not t["dst"]["p"]:
            return t["dst"]["l"], bb
    return None


def _uses(obj, acc):
    if isinstance(obj, list):
        for x in obj:
            _uses(x, acc)
    elif isinstance(obj, dict):
        for k, v in obj.items():
            if k == "l" and isinstance(v, int):
                acc.add(v)
            elif k == "index" and isinstance(v, int):
                acc.add(v)
            elif k in ("sp", "fn_sp", "arg_tys"):
                continue
            elif k == "callee":
                if isinstance(v, dict) and "pl" in v:
                    _uses(v["pl"], acc)
            else:
                _uses(v, acc)


def _defs_of_block(blk):
    out = set()
    for s in blk["stmts"]:
        if s.get("k") == "assign" and not s["dst"]["p"]:
            out.add(s["dst"]["l"])
    t = blk["term"]
    if t["k"] == "call" and t.get("dst") and not t["dst"]["p"]:
        out.add(t["dst"]["l"])
    return out


def _succs(t):
    k = t["k"]
    if k == "goto":
        return [t["target"]]
    if k == "switch":
        return [x[1] for x in t["arms"]] + [t["otherwise"]]
    if k in ("call", "drop", "assert"):
        return [x for x in (t.get("target"),) if x is not None]
    return []


def outline_lane_loops(facts):
    """facts (the extractor's JSON) → facts with lane loops outlined; the input is returned unchanged when no loop matches"""
    try:
        prog = Program(facts)
    except Exception:
        return facts
    new_bodies = []
    replaced = {}
    for b in list(prog.bodies.values()):
        if b.is_closure:
            continue
        names = {callee_name(t) for _bb, t in b.calls()}
        if "next" not in names or "zip" not in names or not (names & LANE_PRODUCERS):
            continue
        try:
            r = _outline_body(prog, b)
        except Exception:
            r = None
        if r:
            replaced[b.key] = r[0]
            new_bodies.extend(r[1])
    if not replaced:
        return facts
    out = dict(facts)
    out["bodies"] = [replaced.get(rb["key"], rb) for rb in facts["bodies"]] + new_bodies
    return out


def _outline_body(prog, b):
    tb = prog.tracked(b)
    raw = json.loads(json.dumps(b.raw))
    closures = []
    live = tb.live_blocks()
    heads = sorted({h for h in live for p in tb.preds(h) if tb.dominates(h, p)})
    done = False
    for h in heads:
        loop = {x for x in tb.reachable_from(h) | {h} if h in tb.reachable_from(x) or x == h}
        loop = {x for x in loop if x in live}
        if h not in loop or tb.term(h)["k"] != "call" or callee_name(tb.term(h)) != "next":
            continue
        th = tb.term(h)
        sw = th.get("target")
        if sw is None or tb.term(sw)["k"] != "switch":
            continue
        tsw = tb.term(sw)
        arms = dict((v, t_) for v, t_ in tsw["arms"])
        if 0 not in arms or 1 not in arms:
            continue
        exit_bb, body_bb = arms[0], arms[1]
        if exit_bb in loop or body_bb not in loop:
            continue
        # the loop is left only through the header's None arm (panics / unwinding aside)
        ok = True
        for x in loop:
            for s in _succs(raw["blocks"][x]["term"]):
                if s not in loop and not (x == sw and s in (exit_bb, tsw["otherwise"])):
                    if tb.can_reach_return(s):
                        ok = False
        if not ok:
            continue
        # the iterator: zip(into_iter(P1), into_iter(P2) | P2)
        it = ds(tb.operand_expr(th["args"][0], h, "term"))
        for _ in range(4):
            if isinstance(it, tuple) and it[0] in ("ref", "deref"):
                it = ds(it[1])
        if not (isinstance(it, tuple) and it[0] == "phi"):
            continue
        il = it[1]
        outs = [d for d in it[3] if d[0] not in ("entry", "partial") and d[0] not in loop]
        if len(outs) != 1:
            continue
        init = _peel_into_iter(tb.def_expr(il, outs[0]))
        if not (isinstance(init, tuple) and init[0] == "call" and init[1] == "zip" and len(init[3]) == 2):
            continue
        p1, p2 = _peel_into_iter(init[3][0]), _peel_into_iter(init[3][1])
        l1, l2 = _producer_local(tb, p1), _producer_local(tb, p2)
        if l1 is None or l2 is None:
            continue
        # pre-header: the unique predecessor of h outside the loop, ending in a goto
        pres = [p for p in tb.preds(h) if p not in loop and p in live]
        if len(pres) != 1 or raw["blocks"][pres[0]]["term"]["k"] != "goto":
            continue
        pre = pres[0]
        next_dst = th["dst"]["l"]
        # destructuring of the item: statements reading (next_dst as Some).0[.k]
        item_stmts = []
        for x in sorted(loop):
            for si, s in enumerate(raw["blocks"][x]["stmts"]):
                if s.get("k") != "assign":
                    continue
                rv = s["rv"]
                pl = rv.get("a", {}).get("pl") if rv.get("k") == "use" else (rv.get("pl") if rv.get("k") == "ref" else None)
                if pl and pl["l"] == next_dst:
                    pj = pl["p"]
                    if rv.get("k") == "use" and len(pj) in (2, 3) and isinstance(pj[0], dict) and "downcast" in pj[0] and \
                            isinstance(pj[1], dict) and pj[1].get("field") == 0 and \
                            (len(pj) == 2 or (isinstance(pj[2], dict) and pj[2].get("field") in (0, 1))):
                        item_stmts.append((x, si, None if len(pj) == 2 else pj[2]["field"]))
                    else:
                        ok = False
        # any other use of the `next` result inside the loop (besides its discriminant) is not understood
        if not ok or not item_stmts:
            continue
        # live-in locals: read in the loop (excluding header and its switch), defined outside only
        body_blocks = sorted(x for x in loop if x not in (h, sw))
        used, defined = set(), set()
        for x in body_blocks:
            _uses(raw["blocks"][x]["stmts"], used)
            _uses(raw["blocks"][x]["term"], used)
            defined |= _defs_of_block(raw["blocks"][x])
        used.discard(next_dst)
        live_in = sorted(l for l in used if l not in defined and l != il)
        # partially-defined-inside locals that are also defined outside (loop-carried state other than the iterator): give up
        tb._reaching()
        carried = False
        rd = tb._rd_in.get(h, {})
        for l, defs in rd.items():
            ins = [d for d in defs if d[0] not in ("entry", "partial") and d[0] in loop]
            outs_ = [d for d in defs if d not in ins]
            if ins and outs_ and l != il and l in used:
                # `&mut x` re-borrows of outer locals are tracked as definitions; a plain scalar carried across iterations is state
                ty = raw["locals"][l]["ty"]
                if ty == "()" or (ty == "bool" and not raw["locals"][l].get("name")):
                    continue          # unit temporaries and compiler-generated drop flags
                if not (ty.startswith("ndarray::") or ty.startswith("&") or "Vec<" in ty or "IndexMap" in ty):
                    carried = True
        if carried:
            continue
        # nothing defined in the body is read after the loop
        after_used = set()
        for x in live:
            if x not in loop:
                _uses(raw["blocks"][x]["stmts"], after_used)
                _uses(raw["blocks"][x]["term"], after_used)
        if any(l in after_used for l in defined if raw["locals"][l]["ty"] not in ("()", "bool") and
               any(x_ not in loop and x_ in tb.reachable_from(exit_bb) | {exit_bb} and l in _block_uses(raw["blocks"][x_]) for x_ in live)):
            continue

        ckey = "%s::{closure#lanes@bb%d}" % (b.key, h)
        # ---- the synthetic closure
        nloc = len(raw["locals"])
        clocals = [{"ty": "()", "flags": ["tuple:0"], "mutable": True},
                   {"ty": "&mut {closure@lanes}", "flags": ["ref", "mutref", "closure:" + ckey], "mutable": True},
                   dict(json.loads(json.dumps(raw["locals"][_item_local(raw, item_stmts, 0, nloc)])), name="lane0"),
                   dict(json.loads(json.dumps(raw["locals"][_item_local(raw, item_stmts, 1, nloc)])), name="lane1")]
        clocals += json.loads(json.dumps(raw["locals"]))
        cblocks = []
        ret_bb = len(raw["blocks"])
        sp0 = raw["blocks"][h]["term"].get("sp")
        for bi, blk in enumerate(raw["blocks"]):
            nbk = {"stmts": _remap(blk["stmts"], K, 0, 0), "term": _remap(blk["term"], K, 0, 0), "cleanup": blk.get("cleanup", False)}
            if bi in loop:
                t_ = nbk["term"]
                if t_["k"] == "goto" and t_["target"] == h:
                    t_["target"] = ret_bb
                elif t_["k"] == "switch":
                    t_["arms"] = [[v, (ret_bb if tg == h else tg)] for v, tg in t_["arms"]]
                    if t_["otherwise"] == h:
                        t_["otherwise"] = ret_bb
                elif t_.get("target") == h:
                    t_["target"] = ret_bb
            cblocks.append(nbk)
        for (x, si, fld) in item_stmts:
            s = cblocks[x]["stmts"][si]
            if fld is None:
                s["rv"] = {"k": "agg", "tuple": True, "fields": [{"k": "move", "pl": {"l": 2, "p": []}}, {"k": "move", "pl": {"l": 3, "p": []}}]}
            else:
                s["rv"] = {"k": "use", "a": {"k": "move", "pl": {"l": 2 + fld, "p": []}}}
        pro = []
        upnames = []
        for j, l in enumerate(live_in):
            nm = raw["locals"][l].get("name") or "_%d" % l
            fld = {"field": j, "name": str(j), "adt": ""}
            pro.append({"k": "assign", "dst": {"l": l + K, "p": []}, "rv": {"k": "use", "a": {"k": "copy", "pl": {"l": 1, "p": ["deref", fld]}}}, "sp": sp0})
            upnames.append({"name": nm, "pl": {"l": 1, "p": ["deref", fld]}})
        cblocks[0] = {"stmts": pro, "term": {"k": "goto", "target": body_bb, "sp": sp0}, "cleanup": False}
        cblocks.append({"stmts": [{"k": "assign", "dst": {"l": 0, "p": []}, "rv": {"k": "use", "a": {"k": "const", "c": {"ty": "()", "text": "()"}}}, "sp": sp0}],
                        "term": {"k": "return", "sp": sp0}, "cleanup": False})
        craw = {"key": ckey, "kind": "Closure", "sp": raw.get("sp"), "body_sp": raw.get("body_sp"), "root": b.key, "parent": b.key,
                "arg_count": 3, "locals": clocals, "upvar_names": upnames, "blocks": cblocks, "promoted": json.loads(json.dumps(raw.get("promoted", []))),
                "name": "{closure#lanes}", "synthetic": True}
        if body_bb == 0 or 0 in loop:
            continue
        closures.append(craw)
        # ---- the parent: pre-header → Zip::from(P1).and(P2).for_each(closure) → exit
        ty1, ty2 = raw["locals"][l1[0]]["ty"], raw["locals"][l2[0]]["ty"]
        z1, z2, cl, un = nloc, nloc + 1, nloc + 2, nloc + 3
        raw["locals"].extend([{"ty": "ndarray::Zip<(%s,), D>" % ty1, "flags": ["adt:ndarray::Zip"], "mutable": True},
                              {"ty": "ndarray::Zip<(%s, %s), D>" % (ty1, ty2), "flags": ["adt:ndarray::Zip"], "mutable": True},
                              {"ty": "{closure@lanes}", "flags": ["closure:" + ckey], "mutable": True},
                              {"ty": "()", "flags": ["tuple:0"], "mutable": True}])
        nb0 = len(raw["blocks"])

        def call(name, path, impl_self, args, arg_tys, dst, target):
            return {"k": "call", "callee": {"path": path, "path_args": path, "name": name, "krate": "ndarray", "args": list(arg_tys), "impl_self": impl_self,
                                            "resolved": path, "resolved_local": False, "resolved_kind": "Item", "local": False},
                    "args": args, "arg_tys": list(arg_tys), "dst": {"l": dst, "p": []}, "target": target, "cleanup": None, "fn_sp": sp0, "sp": sp0}
        raw["blocks"].append({"stmts": [], "cleanup": False,
                              "term": call("from", "ndarray::Zip::<(P,), D>::from", "ndarray::Zip<(P,), D>", [{"k": "move", "pl": {"l": l1[0], "p": []}}], [ty1], z1, nb0 + 1)})
        raw["blocks"].append({"stmts": [], "cleanup": False,
                              "term": call("and", "ndarray::Zip::<(P1,), D>::and", "ndarray::Zip<(P1,), D>",
                                           [{"k": "move", "pl": {"l": z1, "p": []}}, {"k": "move", "pl": {"l": l2[0], "p": []}}],
                                           [raw["locals"][z1]["ty"], ty2], z2, nb0 + 2)})
        raw["blocks"].append({"stmts": [{"k": "assign", "dst": {"l": cl, "p": []},
                                         "rv": {"k": "agg", "closure": ckey, "fields": [{"k": "copy", "pl": {"l": l, "p": []}} for l in live_in]}, "sp": sp0}],
                              "cleanup": False,
                              "term": call("for_each", "ndarray::Zip::<(P1, P2), D>::for_each", "ndarray::Zip<(P1, P2), D>",
                                           [{"k": "move", "pl": {"l": z2, "p": []}}, {"k": "move", "pl": {"l": cl, "p": []}}],
                                           [raw["locals"][z2]["ty"], "{closure@lanes}"], un, exit_bb)})
        raw["blocks"][pre]["term"] = dict(raw["blocks"][pre]["term"], target=nb0)
        done = True
        break       # one lane loop per routine is all the reference shapes have; a second would be handled on a re-run
    if not done:
        return None
    return raw, closures


def _block_uses(blk):
    acc = set()
    _uses(blk["stmts"], acc)
    _uses(blk["term"], acc)
    return acc


def _item_local(raw, item_stmts, k, nloc):
    for (x, si, fld) in item_stmts:
        if fld == k:
            return raw["blocks"][x]["stmts"][si]["dst"]["l"]
    # whole-item binding: fall back to the first destination (types are only informative)
    return raw["blocks"][item_stmts[0][0]]["stmts"][item_stmts[0][1]]["dst"]["l"]
