"""RESULT-INTEGRITY helpers (R30): what a routine hands back is the value its verified core computed, with nothing applied to it
afterwards.  The kernels, pairings and formulas of the other rules say *what is computed*; these say *that it is what is returned*:
a doubled sum, a reversed result array, `.map(|_| first)` after a correct fold all leave every kernel rule intact."""
from .facts import callee_name, ds, fmt


def payload_local(tb, d):
    """local moved into the Ok(..)/Some(..) aggregate (or plain returned) at definition d of the return place, following plain moves"""
    if d[0] == "entry" or not isinstance(d[1], int):
        return None
    st = tb.blocks[d[0]]["stmts"][d[1]]
    rv = st["rv"]
    if rv["k"] == "agg" and rv.get("variant") in ("Ok", "Some") and len(rv["fields"]) == 1:
        op = rv["fields"][0]
    elif rv["k"] == "use":
        op = rv["a"]
    else:
        return None
    pbb, psi = d
    for _ in range(8):
        if op["k"] not in ("move", "copy") or op["pl"]["p"]:
            return None
        L = op["pl"]["l"]
        rd = list(tb.reaching_defs(L, pbb, psi))
        if len(rd) == 1 and rd[0][0] != "entry" and isinstance(rd[0][1], int):
            st2 = tb.blocks[rd[0][0]]["stmts"][rd[0][1]]
            if st2["rv"]["k"] == "use" and st2["rv"]["a"]["k"] in ("move", "copy") and not st2["rv"]["a"]["pl"]["p"]:
                op, pbb, psi = st2["rv"]["a"], rd[0][0], rd[0][1]
                continue
        return L
    return None


def mutation_sites(tb, local):
    """[(bb, callee name)] of the calls that receive `&mut local` (tracked body)"""
    out = []
    for dd in tb.defs_of(local):
        if dd[0] != "entry" and isinstance(dd[1], tuple) and dd[1][0] == "mut":
            out.append((dd[0], callee_name(tb.term(dd[0]))))
    return out


def returned_locals(tb):
    ex = tb.exits()
    if not ex:
        return []
    out = []
    for d in tb.reaching_defs(0, ex[0], "term"):
        out.append((d, payload_local(tb, d)))
    return out


WRITE_BORROWS = ("lanes_mut", "view_mut", "axis_iter_mut", "outer_iter_mut", "iter_mut", "rows_mut", "columns_mut", "genrows_mut",
                 "gencolumns_mut", "index_axis_mut", "slice_mut", "slice_axis_mut", "axis_chunks_iter_mut", "indexed_iter_mut")


def rule_filled_array_returned(ctx, tb, key, filler=("for_each", "fold", "apply", "par_for_each"), rule="R30", what=""):
    """tb fills one array through a mutable traversal (Zip/iterator consumed by one of `filler`) and returns it: every success
    value produced after the traversal is that very local, and the only calls that ever receive `&mut array` are the borrowing
    producers of the traversal (no invert_axis / swap_axes / mapv_inplace / assign / fill / sort afterwards or in between)."""
    fills = [bb for bb, t in tb.calls() if callee_name(t) in filler and "Zip" in (t["callee"].get("path") or "") or
             (callee_name(t) in filler and any(n in fmt(ds(tb.call_arg_exprs(bb)[0])) for n in WRITE_BORROWS))]
    if not fills:
        ctx.ob(rule, key, False, tb.where(), "anchor not recognised: no traversal that fills the result", what="anchor not recognised")
        return
    after = set()
    for bb in fills:
        after |= tb.reachable_from(bb)
    bad = None
    n = 0
    for d, L in returned_locals(tb):
        if d[0] == "entry" or d[0] not in after:
            continue
        n += 1
        if L is None:
            bad = "a success value after the traversal is a computed expression, not the filled array"
            break
        sites = mutation_sites(tb, L)
        if not any(nm in WRITE_BORROWS for _, nm in sites):
            bad = "the value returned after the traversal (`%s`) is not the array the traversal filled" % (tb.local_name(L) or "_%d" % L)
            break
        other = [(b_, nm) for b_, nm in sites if nm not in WRITE_BORROWS]
        if other:
            bad = "the result array is also modified by `%s` at %s" % (other[0][1], tb.where(other[0][0], "term"))
            break
    ok = bad is None and n > 0
    ctx.ob(rule, key, ok, tb.where(fills[0], "term"),
           "the array returned is the one the traversal filled, borrowed mutably by the traversal's producers only" if ok else
           (bad or "no success value after the traversal"), what=what or "result array altered after it was computed")


def core_values(tb):
    """[(def, deep-stripped success expression)]: payloads of Ok/Some aggregates and plain returned values; Err/None/residual
    definitions of the return place are not success values"""
    out = []
    ex = tb.exits()
    if not ex:
        return out
    for d in tb.reaching_defs(0, ex[0], "term"):
        e = ds(tb.def_expr(0, d))
        if isinstance(e, tuple) and e[0] == "agg" and e[1] in ("std::result::Result", "std::option::Option"):
            if e[2] in ("Ok", "Some"):
                out.append((d, ds(e[3][0])))
            continue
        if isinstance(e, tuple) and e[0] == "call" and e[1] == "from_residual":
            continue
        out.append((d, e))
    return out


# routine → the one call whose result it must hand back unchanged.  (trait, method, callee, receiver description)
DELEGATING = [
    ("Sort1dExt", "get_many_from_sorted_mut", "get_many_from_sorted_mut_unchecked"),
    ("MaybeNanExt", "fold_skipnan", "fold"),
    ("MaybeNanExt", "indexed_fold_skipnan", "fold"),
    ("MaybeNanExt", "fold_axis_skipnan", "fold_axis"),
    ("MaybeNanExt", "map_axis_skipnan_mut", "map_axis_mut"),
    ("QuantileExt", "quantile_axis_skipnan_mut", "map_axis_mut"),
]


def rule_r30_delegating(ctx, prog, only=None, rule="R30"):
    """every success value of the listed routines is the result of the named traversal/worker call itself: the same call
    expression, reached through moves only.  `.reversed_axes()`, `.map(|_| ..)`, a popped map entry or an in-place edit
    between the call and the return all leave the kernel rules intact and are caught here."""
    n = 0
    for trait, meth, callee in DELEGATING:
        if only is not None and (trait, meth) not in only:
            continue
        n += 1
        root = prog.method(trait, meth)
        tb = prog.tracked(root)
        sites = [bb for bb, t in tb.calls() if callee_name(t) == callee]
        key = "%s/returns-%s-result" % (meth, callee)
        if len(sites) != 1:
            # the worker may be reached through a private helper: accept a single local call that itself satisfies the rule
            ctx.ob(rule, key, False, root.where(), "anchor not recognised: %d calls to %s in %s" % (len(sites), callee, meth),
                   what="anchor not recognised")
            continue
        want = ds(tb.call_expr(sites[0]))
        vals = core_values(tb)
        bad = [v for _d, v in vals if v != want]
        # the receiving local must not be edited in place after the call either
        edited = None
        for d, v in vals:
            if v == want:
                L = payload_local(tb, d) if isinstance(d[1], int) else None
                if L is not None:
                    ms = [m for m in mutation_sites(tb, L)]
                    if ms:
                        edited = ms[0]
        ok = bool(vals) and not bad and edited is None
        ctx.ob(rule, key, ok, root.where(sites[0], "term"),
               "the success value is the result of %s(..) itself" % callee if ok else
               ("the result of %s(..) is edited in place by `%s` before it is returned" % (callee, edited[1]) if edited else
                "a success value is `%s`, not the result of %s(..)" % (fmt(bad[0])[:100] if bad else "missing", callee)),
               what="result altered after the verified core computed it")
    return n


def rule_r30_captured_index(ctx, prog, names=("argmin_skipnan", "argmax_skipnan"), rule="R30"):
    """the index returned on success is the variable the traversal's callback updates (captured by `&mut`), not a fresh or
    default value"""
    for name in names:
        root = prog.method("QuantileExt", name)
        tb = prog.tracked(root)
        captured = set()
        for bb, si, s_ in tb.assigns():
            rv = s_["rv"]
            if rv["k"] == "agg" and rv.get("closure"):
                for op in rv["fields"]:
                    if op["k"] in ("move", "copy") and not op["pl"]["p"]:
                        for dd in tb.defs_of(op["pl"]["l"]):
                            if dd[0] != "entry" and isinstance(dd[1], int):
                                st = tb.blocks[dd[0]]["stmts"][dd[1]]
                                if st["rv"]["k"] == "ref" and st["rv"].get("mut") and not st["rv"]["pl"]["p"]:
                                    captured.add(st["rv"]["pl"]["l"])
        vals = [(d, v) for d, v in core_values(tb)]
        ok = bool(vals)
        detail = "the returned index is the variable updated by the traversal callback"
        for d, v in vals:
            L = payload_local(tb, d) if isinstance(d[1], int) else None
            if L is None or L not in captured:
                # accumulator-carried form: the index travels inside the fold's accumulator and is projected out of its result
                if any(isinstance(x, tuple) and x[0] == "call" and x[1] in ("indexed_fold_skipnan", "fold") for x in _walk(v)):
                    continue
                ok = False
                detail = "the success value `%s` is not the index tracked by the traversal" % fmt(v)[:100]
        ctx.ob(rule, "%s/returns-the-tracked-index" % name, ok, root.where(), detail, what="index replaced after the scan")


def _walk(e):
    from .facts import walk
    return walk(e)
