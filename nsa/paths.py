"""Acyclic path enumeration of a loop-free MIR body with branch decisions and per-path return expression,
and a tiny evaluator for integer/boolean expressions over named symbols (used to compare an extracted decision
tree with a specification table over a small complete domain — the *extracted tree* is evaluated, never the crate)."""
from .facts import ds, fmt, strip


class NotLoopFree(Exception):
    pass


def enumerate_paths(body, limit=4000, loop_exits=None):
    """yield (decisions, ret_def, asserts) for every entry→return path;
    decisions = [(bb, discr_expr, value)] where value is the arm value or ('not', [values]) for otherwise;
    asserts = [(bb, cond_expr, expected)] passed on the way (dev-profile overflow checks)"""
    out = []

    def const_assign(s):
        if s["k"] == "assign" and not s["dst"]["p"]:
            rv = s["rv"]
            if rv["k"] == "use" and rv["a"]["k"] == "const":
                c = rv["a"]["c"]
                if "bool" in c:
                    return s["dst"]["l"], int(c["bool"])
                if "int" in c:
                    return s["dst"]["l"], c["int"]
            return s["dst"]["l"], None
        return None

    def rec(bb, seen, decisions, last_def, asserts, known=None, order=()):
        known = dict(known or {})
        order = order + (bb,)
        if len(out) > limit:
            raise NotLoopFree("too many paths")
        if bb in seen:
            raise NotLoopFree("cycle through bb%d" % bb)
        seen = seen | {bb}
        blk = body.blocks[bb]
        if loop_exits and bb in loop_exits:
            # a loop summarised by the caller: continue at its exit block (the caller applies the summary at `bb`)
            rec(loop_exits[bb], seen, decisions, last_def, asserts, known, order)
            return
        for si, s in enumerate(blk["stmts"]):
            if s["k"] == "assign" and s["dst"]["l"] == 0 and not s["dst"]["p"]:
                last_def = (bb, si)
            ca = const_assign(s)
            if ca is not None:
                if ca[1] is None:
                    known.pop(ca[0], None)
                else:
                    known[ca[0]] = ca[1]
        t = blk["term"]
        k = t["k"]
        if k == "return":
            out.append(PathInfo(decisions, last_def, asserts, order))
            return
        if k == "call":
            if t["dst"]["l"] == 0 and not t["dst"]["p"]:
                last_def = (bb, "term")
            if t.get("target") is None:
                return
            if not t["dst"]["p"]:
                known.pop(t["dst"]["l"], None)
            rec(t["target"], seen, decisions, last_def, asserts, known, order)
            return
        if k == "switch":
            succs = body.succ(bb)
            d = t["discr"]
            if d["k"] in ("move", "copy") and not d["pl"]["p"] and d["pl"]["l"] in known:
                # drop flags and other path-constant booleans: follow the known arm, record no decision
                v = known[d["pl"]["l"]]
                tgt = t["otherwise"]
                for val, tg in t["arms"]:
                    if val == v:
                        tgt = tg
                rec(tgt, seen, decisions, last_def, asserts, known, order)
                return
            de = body.switch_discr_expr(bb)
            vals = [v for v, _ in t["arms"]]
            for v, tgt in t["arms"]:
                if tgt in succs:
                    rec(tgt, seen, decisions + [(bb, de, v)], last_def, asserts, known, order)
            if t["otherwise"] in succs and body.term(t["otherwise"])["k"] != "unreachable":
                rec(t["otherwise"], seen, decisions + [(bb, de, ("not", vals))], last_def, asserts, known, order)
            return
        if k == "assert":
            rec(t["target"], seen, decisions, last_def,
                asserts + [(bb, body.operand_expr(t["cond"], bb, "term"), t["expected"])], known, order)
            return
        for s in body.succ(bb):
            rec(s, seen, decisions, last_def, asserts, known, order)

    rec(0, frozenset(), [], None, [])
    return out


class PathInfo(tuple):
    """(decisions, ret_def, asserts) + .blocks = the block sequence of the path"""

    def __new__(cls, decisions, ret_def, asserts, blocks):
        o = tuple.__new__(cls, (decisions, ret_def, asserts))
        o.blocks = blocks
        return o


def resolve_phi(body, e, blocks):
    """rewrite phi nodes by the definition that lies on the given path (latest one), recursively"""
    pos = {b: i for i, b in enumerate(blocks)}

    def go(x, depth=0):
        if not isinstance(x, tuple) or not x or depth > 50:
            return x
        if x[0] == "phi":
            best = None
            for d in x[3]:
                if d[0] == "entry":
                    cand = -1
                elif d[0] == "partial":
                    continue
                elif d[0] in pos:
                    cand = pos[d[0]]
                else:
                    continue
                if best is None or cand > best[0]:
                    best = (cand, d)
            if best is None:
                return x
            return go(body.def_expr(x[1], best[1]), depth + 1)
        if x[0] == "call":
            return ("call", x[1], x[2], tuple(go(a, depth + 1) for a in x[3]), x[4])
        if x[0] == "agg":
            return x[:3] + (tuple(go(a, depth + 1) for a in x[3]),) + x[4:]
        if x[0] == "binop":
            return ("binop", x[1], go(x[2], depth + 1), go(x[3], depth + 1))
        if x[0] in ("unop", "cast"):
            return (x[0], x[1], go(x[2], depth + 1)) + x[3:]
        if x[0] in ("field", "downcast", "deref", "ref", "discr"):
            return (x[0], go(x[1], depth + 1)) + x[2:]
        if x[0] == "index":
            return ("index", go(x[1], depth + 1), go(x[2], depth + 1))
        if x[0] == "mut":
            return ("mut", go(x[1], depth + 1), x[2])
        return x
    return go(e)


class CannotEval(Exception):
    pass


def _subst_closure(ret, arg_value, ups):
    """closure return expression with its (single) value parameter replaced by a literal and its captures by the parent's
    expressions"""
    def go(x):
        if not isinstance(x, tuple) or not x:
            return x
        if x[0] == "param" and x[1] == 2:
            return ("lit", arg_value)
        if x[0] == "field" and isinstance(x[1], tuple) and x[1][:2] == ("param", 2) and isinstance(arg_value, tuple) and str(x[2]).isdigit():
            return ("lit", arg_value[int(x[2])])
        if x[0] == "upvar" and x[1] < len(ups):
            return ups[x[1]]
        if x[0] == "call":
            return ("call", x[1], x[2], tuple(go(a) for a in x[3]), x[4])
        if x[0] == "agg":
            return x[:3] + (tuple(go(a) for a in x[3]),) + x[4:]
        if x[0] == "binop":
            return ("binop", x[1], go(x[2]), go(x[3]))
        if x[0] in ("unop", "cast"):
            return (x[0], x[1], go(x[2])) + x[3:]
        if x[0] in ("field", "downcast", "deref", "ref", "discr", "index"):
            return (x[0], go(x[1])) + tuple(go(y) if isinstance(y, tuple) else y for y in x[2:])
        return x
    return go(ret)


def evaluate(e, env, sym, prog=None):
    """env: symbol name → int; sym(expr) → symbol name or None (called on deep-stripped sub-expressions)"""
    if isinstance(e, tuple) and e and e[0] == "lit":
        return e[1]
    e = ds(e)
    if isinstance(e, tuple) and e and e[0] == "lit":
        return e[1]
    name = sym(e)
    if name is not None:
        if name not in env:
            raise CannotEval("unbound %s" % name)
        return env[name]
    if not isinstance(e, tuple):
        raise CannotEval(str(e))
    op = e[0]
    if op == "const":
        if isinstance(e[2], (int, bool)):
            return int(e[2])
        raise CannotEval("const %r" % (e[2],))
    if op == "binop":
        a = evaluate(e[2], env, sym, prog)
        b = evaluate(e[3], env, sym, prog)
        o = e[1]
        if o.endswith("WithOverflow"):
            o2 = o[:-len("WithOverflow")]
            v = {"Add": a + b, "Sub": a - b, "Mul": a * b}[o2]
            return (v, int(v < 0 or v >= 2 ** 64))
        table = {"Add": lambda: a + b, "Sub": lambda: a - b, "Mul": lambda: a * b, "Eq": lambda: int(a == b),
                 "Ne": lambda: int(a != b), "Lt": lambda: int(a < b), "Le": lambda: int(a <= b), "Gt": lambda: int(a > b),
                 "Ge": lambda: int(a >= b), "BitAnd": lambda: a & b, "BitOr": lambda: a | b}
        if o not in table:
            raise CannotEval("binop " + o)
        v = table[o]()
        if o in ("Sub",) and v < 0:
            raise CannotEval("wrap")   # release-profile wrap: treated as not evaluable
        return v
    if op == "unop" and e[1] == "Not":
        return int(not evaluate(e[2], env, sym, prog))
    if op == "field" and e[2] in ("0", "1"):
        v = evaluate(e[1], env, sym, prog)
        if isinstance(v, tuple):
            return v[int(e[2])]
        raise CannotEval("field of scalar")
    if op == "agg" and e[1] == "tuple":
        return tuple(evaluate(x, env, sym, prog) for x in e[3])
    if op == "agg" and e[1] == "std::option::Option":
        if e[2] == "None":
            return None
        return ("Some", evaluate(e[3][0], env, sym, prog))
    if op == "cast":
        return evaluate(e[2], env, sym, prog)
    if op == "call" and e[1] == "then_some" and len(e[3]) == 2:
        return ("Some", evaluate(e[3][1], env, sym, prog)) if evaluate(e[3][0], env, sym, prog) else None
    if op == "call" and e[1] == "checked_sub" and len(e[3]) == 2:
        a, b = evaluate(e[3][0], env, sym, prog), evaluate(e[3][1], env, sym, prog)
        return ("Some", a - b) if a >= b else None
    if op == "call" and e[1] == "checked_add" and len(e[3]) == 2:
        return ("Some", evaluate(e[3][0], env, sym, prog) + evaluate(e[3][1], env, sym, prog))
    if op == "call" and e[1] in ("map", "then", "and_then") and len(e[3]) == 2 and prog is not None:
        f = ds(e[3][1])
        if isinstance(f, tuple) and f[:2] == ("agg", "closure") and f[2] in prog.bodies:
            cb = prog.bodies[f[2]]
            ret = ds(cb.return_expr())
            if e[1] == "then":
                c = evaluate(e[3][0], env, sym, prog)
                return ("Some", evaluate(_subst_closure(ret, None, f[3]), env, sym, prog)) if c else None
            o = evaluate(e[3][0], env, sym, prog)
            if o is None:
                return None
            if isinstance(o, tuple) and o and o[0] == "Some":
                v = evaluate(_subst_closure(ret, o[1], f[3]), env, sym, prog)
                return ("Some", v) if e[1] == "map" else v
    raise CannotEval(fmt(e)[:80])
