//! Type-level witnesses (DESIGN.md §2.3).  Run with `cargo +nightly test --doc --offline` (the error codes are only
//! honoured on nightly).  Every `compile_fail` snippet has a compiling twin that differs only in the offending line,
//! so that a witness whose *path* is merely wrong cannot pass.

/// W3a — `Edges` cannot be built around an unsorted vector from outside (private field).
/// ```compile_fail,E0451
/// use ndarray_stats::histogram::Edges;
/// let e: Edges<i32> = Edges { edges: vec![3, 1] };
/// ```
/// twin:
/// ```
/// use ndarray_stats::histogram::Edges;
/// let e: Edges<i32> = Edges::from(vec![3, 1]);
/// assert_eq!(e.len(), 2);
/// ```
pub struct W3aEdgesPrivate;

/// W3b — `Bins` and `Grid` fields are private.
/// ```compile_fail,E0451
/// use ndarray_stats::histogram::{Bins, Edges};
/// let edges = Edges::from(vec![1, 2]);
/// let b = Bins { edges };
/// ```
/// ```compile_fail,E0451
/// use ndarray_stats::histogram::{Bins, Edges, Grid};
/// let projections = vec![Bins::new(Edges::from(vec![1, 2]))];
/// let g = Grid { projections };
/// ```
/// twin:
/// ```
/// use ndarray_stats::histogram::{Bins, Edges, Grid};
/// let b = Bins::new(Edges::from(vec![1, 2]));
/// let g = Grid::from(vec![b]);
/// assert_eq!(g.ndim(), 1);
/// ```
pub struct W3bBinsGridPrivate;

/// W3c — the counts of a histogram cannot be written from outside.
/// ```compile_fail,E0616
/// use ndarray_stats::histogram::{Bins, Edges, Grid, Histogram};
/// let g = Grid::from(vec![Bins::new(Edges::from(vec![1, 2]))]);
/// let mut h = Histogram::new(g);
/// h.counts[[0]] = 7;
/// ```
/// twin:
/// ```
/// use ndarray_stats::histogram::{Bins, Edges, Grid, Histogram};
/// let g = Grid::from(vec![Bins::new(Edges::from(vec![1, 2]))]);
/// let h = Histogram::new(g);
/// assert_eq!(h.counts()[[0]], 0);
/// ```
pub struct W3cCountsPrivate;

/// W1/W4 — the extension traits and `Interpolate` are sealed: the marker type of `__private__` cannot be named.
/// ```compile_fail,E0603
/// use ndarray_stats::private::PrivateMarker;
/// ```
/// ```compile_fail,E0046
/// use ndarray_stats::interpolate::Interpolate;
/// use noisy_float::types::N64;
/// struct Mine;
/// impl Interpolate<i32> for Mine {
///     fn needs_lower(_q: N64, _len: usize) -> bool { true }
///     fn needs_higher(_q: N64, _len: usize) -> bool { false }
///     fn interpolate(lower: Option<i32>, _h: Option<i32>, _q: N64, _len: usize) -> i32 { lower.unwrap() }
/// }
/// ```
/// twin:
/// ```
/// use ndarray_stats::interpolate::{Interpolate, Lower};
/// use noisy_float::types::n64;
/// assert!(<Lower as Interpolate<i32>>::needs_lower(n64(0.5), 3));
/// ```
pub struct W1W4Sealed;

/// W5 — the unchecked bulk selection is not reachable from outside the crate.
/// ```compile_fail,E0603
/// use ndarray_stats::sort::get_many_from_sorted_mut_unchecked;
/// ```
/// twin:
/// ```
/// use ndarray::array;
/// use ndarray_stats::Sort1dExt;
/// let mut a = array![3, 1, 2];
/// let m = a.get_many_from_sorted_mut(&array![0usize, 2]);
/// assert_eq!(m[&0], 1);
/// ```
pub struct W5UncheckedPrivate;

/// W2 — `NotNone` cannot be named (and hence not constructed around `None`) from outside; the only way in is the checked API.
/// ```compile_fail,E0603
/// use ndarray_stats::maybe_nan::NotNone;
/// ```
/// twin:
/// ```
/// use ndarray_stats::MaybeNan;
/// let x: Option<i32> = None;
/// assert!(x.try_as_not_nan().is_none());
/// ```
pub struct W2NotNonePrivate;

/// W6 — (compile-pass) the public methods instantiate for every ownership kind and for dynamic dimensionality.
/// ```
/// use ndarray::prelude::*;
/// use ndarray::{ArcArray, CowArray};
/// use ndarray_stats::interpolate::Linear;
/// use ndarray_stats::{DeviationExt, EntropyExt, QuantileExt, Quantile1dExt, SummaryStatisticsExt, CorrelationExt, MaybeNanExt, Sort1dExt, HistogramExt};
/// use noisy_float::types::n64;
/// let owned = array![[1., 2., 3.], [4., 5., 6.]];
/// let view = owned.view();
/// let shared: ArcArray<f64, Ix2> = owned.clone().into_shared();
/// let cow: CowArray<f64, Ix2> = CowArray::from(owned.view());
/// let dynamic = owned.clone().into_dyn();
/// let _ = (owned.mean(), view.mean(), shared.mean(), cow.mean(), dynamic.mean());
/// let _ = (owned.argmin(), view.argmax(), shared.min(), cow.max(), dynamic.argmin());
/// let _ = (owned.sq_l2_dist(&view), view.l1_dist(&shared), shared.linf_dist(&cow), dynamic.count_eq(&dynamic));
/// let _ = (owned.entropy(), view.kl_divergence(&shared), cow.cross_entropy(&owned));
/// let _ = (owned.cov(1.), view.pearson_correlation(), shared.cov(0.), cow.pearson_correlation());
/// let _ = (owned.min_skipnan(), view.max_skipnan(), shared.argmin_skipnan(), dynamic.argmax_skipnan());
/// let mut m = owned.mapv(n64);
/// let _ = m.quantile_axis_mut(Axis(0), n64(0.5), &Linear);
/// let _ = m.view_mut().quantile_axis_mut(Axis(1), n64(0.5), &Linear);
/// let _ = m.clone().into_dyn().quantile_axis_mut(Axis(1), n64(0.5), &Linear);
/// let mut v = array![3., 1., 2.].mapv(n64);
/// let _ = v.quantile_mut(n64(0.5), &Linear);
/// let _ = v.view_mut().get_from_sorted_mut(1);
/// let _ = owned.weighted_mean_axis(Axis(0), &array![1., 2.]);
/// ```
pub struct W6Instantiations;

/// W19 — parametricity: the selecting strategies (and the selection beneath them) are usable with an element type that offers
/// nothing but `Ord + Clone`, so they can only compare and copy elements and therefore commute with every strictly
/// increasing relabelling; the arithmetic strategies are not (twin: same program, `Midpoint`).
/// ```
/// use ndarray::array;
/// use ndarray_stats::interpolate::{Higher, Lower, Nearest};
/// use ndarray_stats::{Quantile1dExt, QuantileExt, Sort1dExt};
/// use noisy_float::types::n64;
/// #[derive(Clone, PartialEq, Eq, PartialOrd, Ord)]
/// struct Opaque(u8);
/// let mut a = array![Opaque(3), Opaque(1), Opaque(2)];
/// let _ = a.quantile_mut(n64(0.5), &Lower);
/// let _ = a.quantile_mut(n64(0.5), &Higher);
/// let _ = a.quantile_mut(n64(0.5), &Nearest);
/// let _ = a.get_from_sorted_mut(1);
/// let _ = a.get_many_from_sorted_mut(&array![0usize, 2]);
/// ```
/// ```compile_fail,E0277
/// use ndarray::array;
/// use ndarray_stats::interpolate::Midpoint;
/// use ndarray_stats::Quantile1dExt;
/// use noisy_float::types::n64;
/// #[derive(Clone, PartialEq, Eq, PartialOrd, Ord)]
/// struct Opaque(u8);
/// let mut a = array![Opaque(3), Opaque(1), Opaque(2)];
/// let _ = a.quantile_mut(n64(0.5), &Midpoint);
/// ```
pub struct W19Parametric;
