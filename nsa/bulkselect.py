"""Engine F, part 3 — summary-based proof of bulk selection (rule R25, property C02, bulk form).

`_get_many_from_sorted_mut_unchecked(array, indexes, values)` is loop-free: it partitions, binary-searches the partition index
in `indexes`, splits `indexes`/`values` at that point, writes the exactly-found value, recurses left, rebases the right-hand
indexes by k+1 and recurses right.  The proof obligation (for all arrays, all index lists, all pivot sequences):

    PRE   indexes strictly increasing, every indexes[t] < len(array), len(values) = len(indexes)
    POST  for every t:  with j = indexes_on_entry[t] and w = values[t] on return:
          array[j] = w,  ∀x<j array[x] ≤ w,  ∀x>j array[x] ≥ w          (array is a permutation of the input: R4)

It is decided by *representative-element* abstract execution: one arbitrary position T (0 ≤ T < len(indexes)) with entry value
J = indexes[T] is tracked through every entry→return path; what is known of all other positions is kept as universally
quantified range facts.  Nothing is run; the state is
  * a zone (DBM) over the integer locals, N = len(array), M = len(indexes), T, J;
  * element facts on `array` and relations between value symbols (as in R24);
  * range facts on `indexes`  ∀t∈[lo,hi): indexes[t] (+ c) REL term,  the set of ranges known strictly increasing;
  * slice handles (base, lo, hi) for every `&mut [_]` local (split_at_mut, [1..], reborrows, tuple fields);
  * what is known of the representative: current indexes[T] = J − shift, the symbol held by values[T].
Contracts used: partition_mut (proved: R22/R18); slice::binary_search on a strictly increasing range (Ok(s): [..s) < x,
[s] = x, (s..) > x; Err(s): [..s) < x, [s..) > x), with a three-way case split T < s, T = s, T > s; split_at_mut; the
`for_each(|x| *x -= c)` rebasing closure (its body is evaluated symbolically to the linear form x − (capture + const));
and the induction hypothesis for the recursive calls (PRE must be *proved* at each: range strictly increasing, every element
in bounds of the sub-view after rebasing by exactly the sub-view's start, index and value slices aligned).
Partial correctness (termination is not part of the property).  Assumes Ord is a lawful total order."""
from .facts import callee_name, ds
from .paths import enumerate_paths
from .zones import DBM, ZoneAnalysis, USIZE_MAX, LEN_MAX
from .selection import VState, tadd, refuted

AUX = ["X%d" % i for i in range(12)]
Z0 = ("Z", 0)


class Fail(Exception):
    pass


class BState(VState):
    def __init__(self, d):
        super().__init__(d)
        self.sl = {}         # local -> (base, lo, hi)  slice reference into I (indexes) or V (values)
        self.tup = {}        # (local, field) -> abstract value
        self.bconst = {}     # bool local -> 0/1
        self.isorted = set() # {(lo, hi)} ranges of I strictly increasing (current values)
        self.ifacts = set()  # {(lo, hi, rel, term, off)}: ∀t∈[lo,hi): I[t] + off REL term   (off None = 0)
        self.shiftT = None   # I[T] = J − shiftT
        self.jknown = True
        self.vT = None       # symbol held by V[T]
        self.bs = {}         # Result local -> record {base, lo, hi, needle, p, arm} of a binary_search result
        self.bsbool = {}     # bool local -> (record, arm meant by `true`)
        self.itm = {}        # IterMut local -> (base, lo, hi)
        self.clos = {}       # closure local -> (key, [abstract captured values])
        self.selem = {}      # &mut element local -> (base, pos)
        self.lenof = {}      # integer local holding the length of a slice -> (lo, hi)
        self.naux = 0
        self.case_used = False


def refine_terms(d, op, a, c, truth):
    if not truth:
        op = {"Lt": "Ge", "Le": "Gt", "Gt": "Le", "Ge": "Lt", "Eq": "Ne", "Ne": "Eq"}[op]
    if op == "Lt":
        d.add(a[0], c[0], c[1] - a[1] - 1)
    elif op == "Le":
        d.add(a[0], c[0], c[1] - a[1])
    elif op == "Gt":
        d.add(c[0], a[0], a[1] - c[1] - 1)
    elif op == "Ge":
        d.add(c[0], a[0], a[1] - c[1])
    elif op == "Eq":
        d.add(a[0], c[0], c[1] - a[1])
        d.add(c[0], a[0], a[1] - c[1])
    elif op == "Ne":
        if d.entails(a[0], c[0], c[1] - a[1]):      # a ≤ c ∧ a ≠ c
            d.add(a[0], c[0], c[1] - a[1] - 1)
        elif d.entails(c[0], a[0], a[1] - c[1]):
            d.add(c[0], a[0], a[1] - c[1] - 1)


class BulkProof:
    def __init__(self, prog, body, partition_key):
        self.prog = prog
        self.b = body
        self.partition_key = partition_key
        self.za = ZoneAnalysis(body, lambda st, z: None)
        self.int_locals = set(self.za.int_locals)
        self.vars = list(self.za.vars) + ["M", "T", "J"] + AUX
        self.p_arr = self.p_idx = self.p_val = None
        for l in range(1, body.arg_count + 1):
            fl = body.local_flags(l)
            ty = body.local_ty(l)
            if "array" in fl:
                self.p_arr = l
            elif "slice" in fl and "[usize]" in ty:
                self.p_idx = l
            elif "slice" in fl:
                self.p_val = l
        self.notes = []
        self.panic_obs = []
        self.term_obs = []
        self._closure_cache = {}

    def name(self, l):
        return "_%d" % l

    def need(self, st, kind, ok, detail):
        """a requirement for "no panic when the precondition holds" (C16, converse)"""
        self.panic_obs.append((kind, bool(ok) or st.d.bottom, detail))

    # ---------------------------------------------------------------- terms
    def term(self, op):
        if op["k"] == "const":
            c = op["c"]
            return ("Z", c["int"]) if "int" in c else None
        pl = op["pl"]
        if pl["p"] or pl["l"] not in self.int_locals:
            return None
        return (self.name(pl["l"]), 0)

    def oplocal(self, op):
        if op["k"] in ("move", "copy") and not op["pl"]["p"]:
            return op["pl"]["l"]
        return None

    def aux(self, st):
        if st.naux >= len(AUX):
            raise Fail("out of auxiliary variables")
        x = AUX[st.naux]
        st.naux += 1
        st.d.havoc_unsigned(x)
        return x

    def plus(self, st, a, c):
        """a + c for two terms; exact when one is constant, otherwise a fresh variable bounded below by both"""
        def pin(t):
            if t[0] != "Z":
                lo, hi = st.d.bounds(t[0])
                if lo == hi:
                    return ("Z", int(lo) + t[1])
            return t
        a, c = pin(a), pin(c)
        if a[0] == "Z":
            return (c[0], c[1] + a[1])
        if c[0] == "Z":
            return (a[0], a[1] + c[1])
        x = self.aux(st)
        st.d.add(a[0], x, -a[1])
        st.d.add(c[0], x, -c[1])
        return (x, 0)

    # ---------------------------------------------------------------- variable reassignment
    def kill(self, st, x):
        """integer variable x is about to be reassigned: rewrite tracked terms to an equal variable or drop them"""
        alias = None
        for y in st.d.vars:
            if y != x and y != "Z" and st.d.get(x, y) == 0 and st.d.get(y, x) == 0:
                alias = y
                break

        def rt(t):
            if t is None or t[0] != x:
                return t
            return (alias, t[1]) if alias else "DROP"

        def ok(*ts):
            return all(t != "DROP" for t in ts)

        nf = set()
        for f in st.facts:
            if f[0] == "seg":
                a, c = rt(f[1]), rt(f[2])
                if ok(a, c):
                    nf.add(("seg", a, c, f[3]))
            else:
                a = rt(f[1])
                if ok(a):
                    nf.add(("pt", a, f[2]))
        st.facts = nf
        ni = set()
        for (lo, hi, rel, u, off) in st.ifacts:
            a, c, uu, oo = rt(lo), rt(hi), rt(u), rt(off)
            if ok(a, c, uu, oo):
                ni.add((a, c, rel, uu, oo))
        st.ifacts = ni
        st.isorted = {(rt(a), rt(c)) for (a, c) in st.isorted if ok(rt(a), rt(c))}
        for m in (st.sl, st.itm):
            for k in list(m):
                base, lo, hi = m[k]
                a, c = rt(lo), rt(hi)
                if ok(a, c):
                    m[k] = (base, a, c)
                else:
                    del m[k]
        for k in list(st.tup):
            v = st.tup[k]
            if v and v[0] == "slice":
                a, c = rt(v[2]), rt(v[3])
                if ok(a, c):
                    st.tup[k] = ("slice", v[1], a, c)
                else:
                    del st.tup[k]
            elif v and v[0] == "view":
                a, c = rt(v[1]), rt(v[2])
                if ok(a, c):
                    st.tup[k] = ("view", a, c)
                else:
                    del st.tup[k]
            elif v and v[0] in ("int", "refint"):
                a = rt(v[1])
                if ok(a):
                    st.tup[k] = (v[0], a)
                else:
                    del st.tup[k]
        for k in list(st.subview):
            v = st.subview[k]
            if isinstance(v[0], str):        # (adt, fields)
                fs = [rt(f) for f in v[1]]
                if ok(*fs):
                    st.subview[k] = (v[0], fs)
                else:
                    del st.subview[k]
            else:
                a, c = rt(v[0]), rt(v[1])
                if ok(a, c):
                    st.subview[k] = (a, c)
                else:
                    del st.subview[k]
        for m in (st.elem, st.refint):
            for k in list(m):
                a = rt(m[k])
                if ok(a):
                    m[k] = a
                else:
                    del m[k]
        for k in list(st.selem):
            a = rt(st.selem[k][1])
            if ok(a):
                st.selem[k] = (st.selem[k][0], a)
            else:
                del st.selem[k]
        seen_rec = set()
        for k in list(st.bs):
            rec = st.bs[k]
            if id(rec) in seen_rec:
                continue
            seen_rec.add(id(rec))
            a, c, n2, pp = rt(rec["lo"]), rt(rec["hi"]), rt(rec["needle"]), rt(rec["p"])
            if ok(a, c, n2, pp):
                rec["lo"], rec["hi"], rec["needle"], rec["p"] = a, c, n2, pp
            else:
                rec["dead"] = True
        for k in list(st.bs):
            if st.bs[k].get("dead"):
                del st.bs[k]
        for k in list(st.bsbool):
            if st.bsbool[k][0].get("dead"):
                del st.bsbool[k]
        for m in (st.pending, st.bools, st.lin, st.ordcmp):
            for k in list(m):
                if any(isinstance(t, tuple) and len(t) == 2 and t[0] == x for t in m[k] if isinstance(t, tuple)):
                    del m[k]
        if st.shiftT is not None:
            a = rt(st.shiftT)
            if ok(a):
                st.shiftT = a
            else:
                st.jknown = False

    def promoted_int(self, pb):
        """value of a promoted `&<integer constant>`"""
        vals = {}
        ret = None
        for bb in sorted(pb.live_blocks()):
            for s_ in pb.blocks[bb]["stmts"]:
                if s_["k"] != "assign" or s_["dst"]["p"]:
                    continue
                rv = s_["rv"]
                if rv["k"] == "use" and rv["a"]["k"] == "const" and "int" in rv["a"]["c"]:
                    vals[s_["dst"]["l"]] = rv["a"]["c"]["int"]
                elif rv["k"] == "ref" and not rv["pl"]["p"] and s_["dst"]["l"] == 0:
                    ret = rv["pl"]["l"]
        return vals.get(ret)

    def forget_local(self, st, l):
        for m in (st.lenof, st.sl, st.bconst, st.bs, st.bsbool, st.itm, st.clos, st.selem, st.val, st.elem, st.subview, st.refint, st.ordcmp,
                  st.discr_of, st.pending, st.bools, st.lin):
            m.pop(l, None)
        for k in [k for k in st.tup if k[0] == l]:
            del st.tup[k]

    # ---------------------------------------------------------------- abstract values
    def absval(self, st, op):
        if op["k"] == "const":
            c = op["c"]
            if "bool" in c:
                return ("bool", int(c["bool"]))
            if "int" in c:
                return ("int", ("Z", c["int"]))
            return None
        l = self.oplocal(op)
        if l is None:
            return None
        if l in st.sl:
            return ("slice",) + st.sl[l]
        if l in self.int_locals:
            return ("int", (self.name(l), 0))
        if l in st.bconst:
            return ("bool", st.bconst[l])
        if l in st.refint:
            return ("refint", st.refint[l])
        return None

    def set_int(self, st, l, t):
        x = self.name(l)
        if t[0] == x:
            st.d.assign_var_plus(x, x, t[1])
            return
        self.kill(st, x)
        if t[0] == "Z":
            st.d.assign_const(x, t[1])
        else:
            st.d.assign_var_plus(x, t[0], t[1])

    def havoc_int(self, st, l):
        x = self.name(l)
        self.kill(st, x)
        st.d.havoc_unsigned(x)

    def install(self, st, l, av):
        if av is None:
            return
        if av[0] == "slice":
            st.sl[l] = av[1:]
        elif av[0] == "view":
            st.subview[l] = (av[1], av[2])
        elif av[0] == "bool":
            st.bconst[l] = av[1]
        elif av[0] == "refint":
            st.refint[l] = av[1]
        elif av[0] == "int" and l in self.int_locals:
            self.set_int(st, l, av[1])

    # ---------------------------------------------------------------- index-array facts
    def i_implies(self, st, rel, u, off, want_rel, want_u, want_off):
        """does  I[t] + off REL u  imply  I[t] + want_off WANT_REL want_u ?  (offsets must agree)"""
        if off is None and want_off is None:
            pass
        elif off is not None and want_off is not None and st.eq(off, want_off):
            pass
        elif off is None and want_off is not None and st.eq(want_off, Z0):
            pass
        elif want_off is None and off is not None and st.eq(off, Z0):
            pass
        else:
            return False
        if want_rel == "LT":
            return (rel == "LT" and st.le(u, want_u)) or (rel in ("LE", "EQ") and st.lt(u, want_u))
        if want_rel == "LE":
            return (rel == "LT" and st.le(u, tadd(want_u, 1))) or (rel in ("LE", "EQ") and st.le(u, want_u))
        if want_rel == "GE":
            return (rel == "GT" and st.le(want_u, tadd(u, 1))) or (rel in ("GE", "EQ") and st.le(want_u, u))
        if want_rel == "GT":
            return (rel == "GT" and st.le(want_u, u)) or (rel in ("GE", "EQ") and st.lt(want_u, u))
        return False

    def icovers(self, st, lo, hi, want_rel, want_u, want_off):
        if st.d.bottom or st.le(hi, lo):
            return True
        cover = lo
        used = set()
        for _ in range(16):
            if st.le(hi, cover):
                return True
            progressed = False
            for f in st.ifacts:
                if f in used:
                    continue
                flo, fhi, rel, u, off = f
                if self.i_implies(st, rel, u, off, want_rel, want_u, want_off) and st.le(flo, cover):
                    if st.le(hi, fhi):
                        return True
                    if st.le(cover, fhi):
                        cover = fhi
                        used.add(f)
                        progressed = True
                        break
            if not progressed:
                return False
        return st.le(hi, cover)

    def sorted_range(self, st, lo, hi):
        if st.le(hi, tadd(lo, 1)):
            return True                      # at most one element
        return any(st.le(a, lo) and st.le(hi, c) for (a, c) in st.isorted)

    def split_ranges(self, st, items, a, c, get, make, inside):
        """generic restructuring of range-indexed items around [a,c): disjoint kept, inside → inside(item) (None = drop),
        containing → outer pieces kept + inside(piece); partial overlaps dropped"""
        out = set()
        for it in items:
            lo, hi = get(it)
            if st.le(hi, a) or st.le(c, lo) or st.le(hi, lo):
                out.add(it)
            elif st.le(a, lo) and st.le(hi, c):
                r = inside(it)
                if r is not None:
                    out.add(r)
            elif st.le(lo, a) and st.le(c, hi):
                if not st.le(a, lo):
                    out.add(make(it, lo, a))
                if not st.le(hi, c):
                    out.add(make(it, c, hi))
                r = inside(make(it, a, c))
                if r is not None:
                    out.add(r)
        return out

    def havoc_I(self, st, a, c):
        st.ifacts = self.split_ranges(st, st.ifacts, a, c, lambda f: (f[0], f[1]), lambda f, lo, hi: (lo, hi) + f[2:], lambda f: None)
        st.isorted = self.split_ranges(st, st.isorted, a, c, lambda r: r, lambda r, lo, hi: (lo, hi), lambda r: None)
        if not (st.lt(("T", 0), a) or st.le(c, ("T", 0))):
            st.jknown = False

    def shift_I(self, st, a, c, by):
        """every element of I[a,c) is decreased by `by` (no wrap: proved by the caller)"""
        st.ifacts = self.split_ranges(st, st.ifacts, a, c, lambda f: (f[0], f[1]), lambda f, lo, hi: (lo, hi) + f[2:],
                                      lambda f: (f[0], f[1], f[2], f[3], by) if f[4] is None else None)
        st.isorted = self.split_ranges(st, st.isorted, a, c, lambda r: r, lambda r, lo, hi: (lo, hi), lambda r: r)
        T = ("T", 0)
        if st.le(a, T) and st.lt(T, c):
            if st.shiftT is None:
                st.shiftT = by
            else:
                st.jknown = False
        elif not (st.lt(T, a) or st.le(c, T)):
            st.jknown = False

    # ---------------------------------------------------------------- closures
    def closure_linear(self, key):
        """symbolic evaluation of a one-path closure |x: &mut usize| …: returns the linear form stored through x as
        (coeff_x, {capture index: coeff}, const) or None"""
        if key in self._closure_cache:
            return self._closure_cache[key]
        res = None
        try:
            cb = self.prog.bodies[key] if isinstance(self.prog.bodies, dict) else None
        except Exception:
            cb = None
        if cb is None:
            cb = self.prog.find(key, required=False)
        if cb is not None and cb.arg_count == 2:
            try:
                paths = enumerate_paths(cb)
            except Exception:
                paths = []
            if len(paths) == 1:
                res = self._eval_closure(cb, list(paths[0].blocks))
        self._closure_cache[key] = res
        return res

    def closure_identity(self, st, local, op):
        """is the closure operand `|i| i` ?"""
        key = None
        if local is not None and local in st.clos:
            key = st.clos[local][0]
        elif op["k"] == "const":
            txt = op["c"].get("text", "")
            ty = op["c"].get("ty", "")
            for cand in (ty, txt):
                if "closure" in cand:
                    key = cand
        if key is None and local is not None:
            ck = [f for f in self.b.local_flags(local) if f.startswith("closure:")]
            key = ck[0][len("closure:"):] if ck else None
        if key is None:
            return False
        cb = self.prog.find(key, required=False)
        if cb is None:
            for k2, b2 in (self.prog.bodies.items() if isinstance(self.prog.bodies, dict) else []):
                if key in k2 or k2 in key:
                    cb = b2
        if cb is None or cb.arg_count != 2:
            return False
        live = sorted(cb.live_blocks())
        if any(cb.term(bb)["k"] == "call" for bb in live):
            return False
        srcs = []
        for bb in live:
            for s_ in cb.blocks[bb]["stmts"]:
                if s_["k"] == "assign" and s_["dst"]["l"] == 0 and not s_["dst"]["p"]:
                    srcs.append(s_["rv"])
        if len(srcs) != 1 or srcs[0]["k"] != "use" or srcs[0]["a"]["k"] == "const":
            return False
        pl = srcs[0]["a"]["pl"]
        if pl["l"] == 2 and not pl["p"]:
            return True
        # via one temporary
        for bb in live:
            for s_ in cb.blocks[bb]["stmts"]:
                if s_["k"] == "assign" and s_["dst"]["l"] == pl["l"] and not s_["dst"]["p"] and not pl["p"]:
                    rv = s_["rv"]
                    if rv["k"] == "use" and rv["a"]["k"] != "const" and rv["a"]["pl"]["l"] == 2 and not rv["a"]["pl"]["p"]:
                        return True
        return False

    def _eval_closure(self, cb, blocks):
        return self._eval_linear(cb, blocks, None)

    def _eval_linear(self, cb, blocks, opt_local, int_locals=()):
        """symbolic evaluation of a straight-line block sequence that updates one `usize` through a reference x:
        closure mode (opt_local None): x is parameter 2, captures are fields of parameter 1;
        loop mode: x is the payload of `(_opt as Some).0`, every other integer local read is an outer (loop-invariant) value.
        returns (coeff_x, {capture: coeff}, const) of the single value stored through x, or None"""
        env = {}
        pend = {}
        stored = []
        if opt_local is None:
            env[2] = ("xref",)

        def lin_add(a, c, sign):
            out = dict(a)
            for k, v in c.items():
                out[k] = out.get(k, 0) + sign * v
            return {k: v for k, v in out.items() if v != 0}

        def place_val(pl):
            l, p = pl["l"], pl["p"]
            if opt_local is None and l == 1:
                if len(p) == 2 and p[0] == "deref" and isinstance(p[1], dict) and "field" in p[1]:
                    return ("cap", p[1]["field"])
                if len(p) == 1 and isinstance(p[0], dict) and "field" in p[0]:
                    return ("cap", p[0]["field"])
                return None
            if opt_local is not None and l == opt_local:
                if len(p) == 2 and isinstance(p[0], dict) and "downcast" in p[0] and isinstance(p[1], dict) and p[1].get("field") == 0:
                    return ("xref",)
                return None
            if not p:
                if l in env:
                    return env[l]
                if opt_local is not None and l in int_locals:
                    return ("lin", {("cap", ("outer", l)): 1})
                return None
            if p == ["deref"]:
                v = env.get(l)
                if v and v[0] == "cap":
                    return ("lin", {("cap", v[1]): 1})
                if v and v[0] == "xref":
                    return ("lin", {"x": 1})
                return None
            if len(p) == 1 and isinstance(p[0], dict) and p[0].get("field") == 0 and l in pend:
                return pend[l]
            return None

        def opval(op, want_int):
            if op["k"] == "const":
                c = op["c"]
                return ("lin", {"1": c["int"]}) if "int" in c else None
            v = place_val(op["pl"])
            if v and v[0] == "cap" and want_int:
                return ("lin", {("cap", v[1]): 1})
            return v

        for bb in blocks:
            blk = cb.blocks[bb]
            for s in blk["stmts"]:
                if s["k"] != "assign":
                    continue
                dst, rv = s["dst"], s["rv"]
                val = None
                is_int_dst = True
                if not dst["p"]:
                    fl = cb.local_flags(dst["l"])
                    is_int_dst = any(f.startswith("uint:") for f in fl) and "ref" not in fl
                if rv["k"] == "use":
                    val = opval(rv["a"], is_int_dst)
                elif rv["k"] == "ref":
                    pl = rv["pl"]
                    if pl["p"] == ["deref"] and env.get(pl["l"], (None,))[0] == "xref":
                        val = ("xref",)
                    elif opt_local is not None and not pl["p"] and pl["l"] in int_locals and pl["l"] not in env:
                        val = ("cap", ("outer", pl["l"]))
                    else:
                        v = place_val(pl)
                        val = v if v and v[0] in ("cap", "xref") else None
                elif rv["k"] == "binop":
                    op = rv["op"]
                    base = op[:-len("WithOverflow")] if op.endswith("WithOverflow") else op
                    a, c = opval(rv["a"], True), opval(rv["b"], True)
                    r = None
                    if base in ("Add", "Sub") and a and c and a[0] == "lin" and c[0] == "lin":
                        r = ("lin", lin_add(a[1], c[1], 1 if base == "Add" else -1))
                    if op.endswith("WithOverflow"):
                        if not dst["p"]:
                            pend[dst["l"]] = r
                        continue
                    val = r
                if dst["p"]:
                    if dst["p"] == ["deref"] and env.get(dst["l"], (None,))[0] == "xref":
                        stored.append(val)
                    else:
                        return None
                else:
                    env[dst["l"]] = val
                    pend.pop(dst["l"], None)
            t = blk["term"]
            if t["k"] == "call":
                return None
        if len(stored) != 1 or stored[0] is None or stored[0][0] != "lin":
            return None
        lin = stored[0][1]
        cx = lin.get("x", 0)
        caps = {k[1]: v for k, v in lin.items() if isinstance(k, tuple)}
        return (cx, caps, lin.get("1", 0))

    # ---------------------------------------------------------------- loops over iter_mut()
    def find_map_loops(self):
        """natural loops of the form `for x in <IterMut> { *x = f(*x) }` (single straight-line body, no calls):
        header → {iter local, Option local, exit block, body path}"""
        b = self.b
        loops = {}
        for u in b.live_blocks():
            for h in b.succ(u):
                if b.dominates(h, u):
                    body = {h, u}
                    stack = [u]
                    while stack:
                        x = stack.pop()
                        if x == h:
                            continue
                        for pr in b.preds(x):
                            if pr not in body:
                                body.add(pr)
                                stack.append(pr)
                    loops.setdefault(h, set()).update(body)
        out = {}
        for h, body in loops.items():
            th = b.term(h)
            if th["k"] != "call" or callee_name(th) != "next" or th.get("target") is None:
                continue
            it_local = None
            a0 = self.oplocal(th["args"][0]) if th["args"] else None
            cur = a0
            for _ in range(4):
                nxt_ = None
                for s in b.blocks[h]["stmts"]:
                    if s["k"] == "assign" and not s["dst"]["p"] and s["dst"]["l"] == cur and s["rv"]["k"] == "ref":
                        nxt_ = s["rv"]["pl"]
                if nxt_ is None:
                    break
                if not nxt_["p"]:
                    it_local = nxt_["l"]
                    break
                if nxt_["p"] == ["deref"]:
                    cur = nxt_["l"]
                else:
                    break
            opt = th["dst"]["l"] if not th["dst"]["p"] else None
            S = th["target"]
            tS = b.term(S)
            if it_local is None or opt is None or tS["k"] != "switch":
                continue
            succs = [x for x in b.succ(S)]
            inside = [x for x in succs if x in body]
            outside = [x for x in succs if x not in body and b.term(x)["k"] != "unreachable"]
            if len(inside) != 1 or len(outside) != 1:
                continue
            none_tgt = [tgt for v, tgt in tS["arms"] if v == 0]
            if none_tgt and none_tgt[0] != outside[0]:
                continue
            path = []
            x = inside[0]
            good = True
            for _ in range(64):
                if x == h:
                    break
                path.append(x)
                nx = [y for y in b.succ(x) if y in body]
                if len(nx) != 1 or b.term(x)["k"] in ("call", "switch"):
                    good = False
                    break
                x = nx[0]
            else:
                good = False
            if not good or set(path) | {h, S} != body:
                continue
            assigned = set()
            for bb in path:
                for s in b.blocks[bb]["stmts"]:
                    if s["k"] == "assign" and not s["dst"]["p"]:
                        assigned.add(s["dst"]["l"])
            out[h] = dict(iter=it_local, opt=opt, exit=outside[0], path=path, assigned=assigned)
        return out

    def apply_loop(self, st, lp):
        sl = st.itm.get(lp["iter"])
        if sl is None:
            raise Fail("loop over an iterator that is not a tracked iter_mut()")
        base, lo, hi = sl
        lin = self._eval_linear(self.b, lp["path"], lp["opt"], self.int_locals - lp["assigned"])
        by = None
        if lin is not None:
            cx, caps, const = lin
            if cx == 1 and len(caps) <= 1 and all(v == -1 for v in caps.values()) and const <= 0:
                if caps:
                    ci = list(caps)[0]
                    if isinstance(ci, tuple) and ci[0] == "outer":
                        by = (self.name(ci[1]), -const)
                else:
                    by = ("Z", -const)
        self.rebase(st, base, lo, hi, by)

    def rebase(self, st, base, lo, hi, by):
        if base == "V":
            if not (st.lt(("T", 0), lo) or st.le(hi, ("T", 0))):
                st.vT = None
            return
        if by is None:
            self.havoc_I(st, lo, hi)
            self.notes.append("the update of the index slice is not a rebasing by a loop-invariant amount: range havocked")
            return
        if not self.icovers(st, lo, hi, "GE", by, None):
            raise Fail("rebasing `*x -= c` may wrap below zero: not every index in the range is known ≥ c")
        self.shift_I(st, lo, hi, by)

    # ---------------------------------------------------------------- statements
    def slice_write(self, st, base, pos, src_op):
        T = ("T", 0)
        if base == "V":
            l = self.oplocal(src_op)
            w = st.val.get(l) if l is not None else None
            if st.eq(pos, T):
                st.vT = w
            elif not (st.lt(pos, T) or st.lt(T, pos)):
                st.vT = None
        elif base == "I":
            self.havoc_I(st, pos, tadd(pos, 1))

    def assign(self, st, dst, rv):
        b = self.b
        l = dst["l"]
        p = dst["p"]
        if p:
            if len(p) == 2 and p[0] == "deref" and isinstance(p[1], dict) and "index" in p[1] and l in st.sl and rv["k"] == "use":
                base, lo, hi = st.sl[l]
                il = p[1]["index"]
                if il not in self.int_locals:
                    raise Fail("slice write at an unmodelled index")
                pos = self.plus(st, lo, (self.name(il), 0))
                self.need(st, "slice-index", st.lt(pos, hi), "write to a slice element at position %s needs it below %s" % (pos, hi))
                st.d.add(pos[0], hi[0], hi[1] - pos[1] - 1)      # bounds-checked: panics otherwise
                self.slice_write(st, base, pos, rv["a"])
                return
            if p == ["deref"] and l in st.selem and rv["k"] == "use":
                base, pos = st.selem[l]
                self.slice_write(st, base, pos, rv["a"])
                return
            if l in st.sl or l in st.selem or l == self.p_arr:
                raise Fail("unmodelled store through `_%d`" % l)
            if p and isinstance(p[0], dict) and "field" in p[0]:
                st.tup.pop((l, p[0]["field"]), None)
            return
        if l in self.int_locals:
            st.lin.pop(l, None)
            if rv["k"] == "use":
                a = rv["a"]
                if a["k"] == "const" and "int" in a["c"]:
                    self.set_int(st, l, ("Z", a["c"]["int"]))
                    return
                pl = a.get("pl")
                if pl and not pl["p"] and pl["l"] in self.int_locals:
                    lin = st.lin.get(pl["l"])
                    self.set_int(st, l, (self.name(pl["l"]), 0))
                    if lin:
                        st.lin[l] = lin
                    return
                if pl and pl["p"] == ["deref"] and pl["l"] in st.refint:
                    self.set_int(st, l, st.refint[pl["l"]])
                    return
                if pl and len(pl["p"]) == 1 and isinstance(pl["p"][0], dict) and "field" in pl["p"][0]:
                    fld = pl["p"][0]["field"]
                    if fld == 0 and pl["l"] in st.pending:
                        op, aa, cc = st.pending[pl["l"]]
                        if aa and cc and cc[0] == "Z" and op in ("Add", "Sub"):
                            self.set_int(st, l, (aa[0], aa[1] + (cc[1] if op == "Add" else -cc[1])))
                            return
                        if aa and cc and aa[0] == "Z" and op == "Add":
                            self.set_int(st, l, (cc[0], cc[1] + aa[1]))
                            return
                        if aa and cc and op == "Sub":
                            self.havoc_int(st, l)
                            st.lin[l] = ("sub", aa, cc)
                            return
                    av = st.tup.get((pl["l"], fld))
                    if av and av[0] == "int":
                        self.set_int(st, l, av[1])
                        return
                if pl and len(pl["p"]) == 2 and isinstance(pl["p"][0], dict) and "downcast" in pl["p"][0] and pl["l"] in st.bs:
                    rec = st.bs[pl["l"]]
                    self.havoc_int(st, l)
                    self.bs_arm(st, rec, pl["p"][0]["downcast"])
                    self.bs_position(st, rec, (self.name(l), 0))
                    return
                if pl and pl["l"] in st.sl and len(pl["p"]) == 2 and pl["p"][0] == "deref" and isinstance(pl["p"][1], dict) and "index" in pl["p"][1]:
                    base, lo, hi = st.sl[pl["l"]]
                    il = pl["p"][1]["index"]
                    if base == "I" and il in self.int_locals:
                        pos = self.plus(st, lo, (self.name(il), 0))
                        st.d.add(pos[0], hi[0], hi[1] - pos[1] - 1)
                        self.havoc_int(st, l)
                        self.read_I(st, pos, (self.name(l), 0))
                        return
                if pl and pl["p"] == ["deref"] and pl["l"] in st.selem and st.selem[pl["l"]][0] == "I":
                    self.havoc_int(st, l)
                    self.read_I(st, st.selem[pl["l"]][1], (self.name(l), 0))
                    return
            if rv["k"] == "binop" and rv["op"] in ("Add", "Sub"):
                # release profile: unchecked arithmetic – exact only where wrapping is excluded by the current state
                aa, cc = self.term(rv["a"]), self.term(rv["b"])
                if aa and cc and cc[0] == "Z" and aa[0] != "Z":
                    c = cc[1] if rv["op"] == "Add" else -cc[1]
                    safe = st.d.entails("Z", aa[0], aa[1] + c) if c < 0 else st.d.entails(aa[0], "Z", USIZE_MAX - c - aa[1])
                    if safe:
                        self.set_int(st, l, (aa[0], aa[1] + c))
                        return
                if aa and cc and rv["op"] == "Sub" and aa[0] != "Z" and cc[0] != "Z" and st.le(cc, aa):
                    self.havoc_int(st, l)
                    st.lin[l] = ("sub", aa, cc)
                    return
            if rv["k"] == "unop" and rv.get("op") == "PtrMetadata":
                sl = st.sl.get(self.oplocal(rv["a"])) if isinstance(rv.get("a"), dict) else None
                if sl and sl[1][0] == "Z":
                    self.set_int(st, l, (sl[2][0], sl[2][1] - sl[1][1]))
                    return
                if sl:
                    self.havoc_int(st, l)
                    st.lenof[l] = (sl[1], sl[2])
                    return
            self.havoc_int(st, l)
            return
        self.forget_local(st, l)
        k = rv["k"]
        if k == "binop" and rv["op"].endswith("WithOverflow"):
            st.pending[l] = (rv["op"][:-len("WithOverflow")], self.term(rv["a"]), self.term(rv["b"]))
            return
        if k == "binop" and rv["op"] in ("Lt", "Le", "Gt", "Ge", "Eq", "Ne"):
            a, c = self.term(rv["a"]), self.term(rv["b"])
            la, lc = self.oplocal(rv["a"]), self.oplocal(rv["b"])
            if a and c and lc in st.lenof and la not in st.lenof:
                lo_, hi_ = st.lenof[lc]                  # idx REL len  ⇔  lo + idx REL hi
                a, c = self.plus(st, lo_, a), hi_
            elif a and c and la in st.lenof and lc not in st.lenof:
                lo_, hi_ = st.lenof[la]
                a, c = hi_, self.plus(st, lo_, c)
            if a and c:
                st.bools[l] = (rv["op"], a, c)
            return
        if k == "agg":
            adt = rv.get("adt") or ""
            if adt.startswith("std::ops::Range"):
                st.subview[l] = (adt, [self.term(f) for f in rv["fields"]])
                return
            ck = [f for f in b.local_flags(l) if f.startswith("closure:")]
            if ck:
                st.clos[l] = (ck[0][len("closure:"):], [self.absval(st, f) for f in rv["fields"]])
                return
            if not rv.get("adt"):
                for i, f in enumerate(rv["fields"]):
                    av = self.absval(st, f)
                    if av is not None:
                        st.tup[(l, i)] = av
            elif not rv["fields"]:
                # a variant of a private field-less enum used as an internal flag (`PivotLookup::Found`): a known constant, like a
                # bool – its discriminant is the variant's position
                a_ = self.prog.adts.get(rv["adt"])
                if a_ and a_.get("kind") == "Enum" and all(not v_["fields"] for v_ in a_["variants"]):
                    names_ = [v_["name"] for v_ in a_["variants"]]
                    if rv.get("variant") in names_:
                        st.bconst[l] = names_.index(rv["variant"])
            return
        if k == "discr" and not rv["pl"]["p"]:
            if rv["pl"]["l"] in st.ordcmp or rv["pl"]["l"] in st.bs:
                st.discr_of[l] = rv["pl"]["l"]
            elif rv["pl"]["l"] in st.bconst:
                st.bconst[l] = st.bconst[rv["pl"]["l"]]
            return
        if k == "rawptr":
            pl = rv["pl"]
            if pl["p"] == ["deref"] and pl["l"] in st.sl:
                st.sl[l] = st.sl[pl["l"]]
            return
        if k in ("ref", "use"):
            if k == "use" and rv["a"]["k"] == "const":
                c = rv["a"]["c"]
                if "bool" in c:
                    st.bconst[l] = int(c["bool"])
                elif "promoted" in c and c["promoted"] < len(b.promoted):
                    v = self.promoted_int(b.promoted[c["promoted"]])
                    if v is not None:
                        st.refint[l] = ("Z", v)
                return
            pl = rv["pl"] if k == "ref" else rv["a"].get("pl")
            if pl is None:
                return
            base = pl["l"]
            pp = pl["p"]
            if k == "ref" and not pp and base in self.int_locals:
                st.refint[l] = (self.name(base), 0)
                return
            if all(x == "deref" for x in pp):
                for m in (st.sl, st.elem, st.subview, st.val, st.refint, st.bconst, st.itm, st.selem, st.bs, st.bsbool, st.clos):
                    if base in m:
                        m[l] = m[base]
                if k == "use" and not pp and base in st.ordcmp:
                    st.ordcmp[l] = st.ordcmp[base]
                if not pp:
                    for (bl, f), v in list(st.tup.items()):
                        if bl == base:
                            st.tup[(l, f)] = v
                return
            flds = [x for x in pp if x != "deref"]
            if len(flds) == 1 and isinstance(flds[0], dict) and "field" in flds[0]:
                self.install(st, l, st.tup.get((base, flds[0]["field"])))
                return
            if len(flds) == 1 and isinstance(flds[0], dict) and "index" in flds[0] and base in st.sl and k == "ref":
                bs_, lo, hi = st.sl[base]
                il = flds[0]["index"]
                if il in self.int_locals:
                    pos = self.plus(st, lo, (self.name(il), 0))
                    st.d.add(pos[0], hi[0], hi[1] - pos[1] - 1)
                    st.selem[l] = (bs_, pos)
                return

    # ---------------------------------------------------------------- binary search contract
    def read_I(self, st, pos, x):
        """integer variable x := I[pos]"""
        T, J = ("T", 0), ("J", 0)
        for (lo, hi, rel, u, off) in list(st.ifacts):
            if off is None and st.le(lo, pos) and st.lt(pos, hi):
                refine_terms(st.d, {"LT": "Lt", "LE": "Le", "EQ": "Eq", "GT": "Gt", "GE": "Ge"}[rel], x, u, True)
        st.ifacts.add((pos, tadd(pos, 1), "EQ", x, None))
        if st.eq(pos, T) and st.jknown and st.shiftT is None:
            refine_terms(st.d, "Eq", x, J, True)

    def bs_position(self, st, rec, svar):
        """svar holds the position reported by the search (payload of Ok or of Err)"""
        if rec["base"] != "I":
            return
        lo, hi, needle = rec["lo"], rec["hi"], rec["needle"]
        if rec["p"] is not None:
            refine_terms(st.d, "Eq", svar, (rec["p"][0], rec["p"][1] - lo[1]), True)
            return
        if not self.sorted_range(st, lo, hi):
            raise Fail("binary_search on a range that is not known to be strictly increasing")
        if lo[0] != "Z":
            raise Fail("binary_search on a sub-slice with a symbolic start is not modelled")
        p = (svar[0], svar[1] + lo[1])
        rec["p"] = p
        st.d.add(lo[0], p[0], p[1] - lo[1])                       # lo ≤ p
        st.d.add(p[0], hi[0], hi[1] - p[1])                       # p ≤ hi
        st.ifacts |= {(lo, p, "LT", needle, None), (tadd(p, 1), hi, "GT", needle, None)}
        T, J = ("T", 0), ("J", 0)
        if st.lt(T, lo) or st.le(hi, T):
            rec["T"] = "out"
        elif not (st.le(lo, T) and st.lt(T, hi)):
            raise Fail("position of the representative relative to the searched range is undecided")
        else:
            st.case_used = True
            rec["T"] = self.tcase
            rel = None
            if self.tcase == "lt":
                st.d.add(T[0], p[0], p[1] - 1)
                rel = "Lt"
            elif self.tcase == "eq":
                st.d.add(T[0], p[0], p[1])
                st.d.add(p[0], T[0], -p[1])
            else:
                st.d.add(p[0], T[0], -p[1] - 1)
                rel = "Gt"
            if rel and st.jknown and st.shiftT is None:
                refine_terms(st.d, rel, J, needle, True)
        if rec["arm"] is not None:
            self._bs_arm_facts(st, rec)

    def bs_arm(self, st, rec, arm):
        if rec["arm"] is not None:
            if rec["arm"] != arm:
                st.d.bottom = True
            return
        rec["arm"] = arm
        if rec["p"] is not None:
            self._bs_arm_facts(st, rec)

    def _bs_arm_facts(self, st, rec):
        if rec["base"] != "I":
            return
        p, hi, needle = rec["p"], rec["hi"], rec["needle"]
        J = ("J", 0)
        if rec["arm"] == "Ok":
            st.d.add(p[0], hi[0], hi[1] - p[1] - 1)               # p < hi
            st.ifacts.add((p, tadd(p, 1), "EQ", needle, None))
            rel = "Eq"
        else:
            st.ifacts.add((p, hi, "GT", needle, None))
            rel = "Gt"
        if rec.get("T") == "eq" and st.jknown and st.shiftT is None:
            refine_terms(st.d, rel, J, needle, True)

    # ---------------------------------------------------------------- switches
    def switch(self, st, t, nxt):
        dsc = t["discr"]
        if dsc["k"] not in ("move", "copy") or dsc["pl"]["p"]:
            return
        dl = dsc["pl"]["l"]
        arms = t["arms"]
        taken = [v for v, tgt in arms if tgt == nxt]
        other = nxt == t["otherwise"]
        if dl in st.bconst:
            v = st.bconst[dl]
            tgt = t["otherwise"]
            for val, tg in arms:
                if val == v:
                    tgt = tg
            if tgt != nxt:
                st.d.bottom = True
            return
        src = st.discr_of.get(dl, dl)
        if src in st.bs:
            if len(taken) == 1 and not other:
                self.bs_arm(st, st.bs[src], "Ok" if taken[0] == 0 else "Err")
            elif other:
                rest = [x for x in (0, 1) if x not in [v for v, _ in arms]]
                if len(rest) == 1:
                    self.bs_arm(st, st.bs[src], "Ok" if rest[0] == 0 else "Err")
            return
        if dl in st.bsbool:
            rec, arm_true = st.bsbool[dl]
            f = [tgt for v, tgt in arms if v == 0]
            ftgt = f[0] if f else None
            truth = True if (other and nxt != ftgt) else (False if nxt == ftgt else None)
            if truth is not None:
                self.bs_arm(st, rec, arm_true if truth else ("Err" if arm_true == "Ok" else "Ok"))
            return
        if src in st.ordcmp:
            a, c = st.ordcmp[src]
            vals = [(-1 if v in (255, 65535, 4294967295, 18446744073709551615) else v) for v, _ in arms]
            tk = None
            for (v, tgt), ov in zip(arms, vals):
                if tgt == nxt and not other:
                    tk = ov
            if tk is None and other:
                rest = [x for x in (-1, 0, 1) if x not in vals]
                tk = rest[0] if len(rest) == 1 else None
            if tk == -1:
                refine_terms(st.d, "Lt", a, c, True)
            elif tk == 0:
                refine_terms(st.d, "Eq", a, c, True)
            elif tk == 1:
                refine_terms(st.d, "Gt", a, c, True)
            return
        info = st.bools.get(dl)
        if info is None or t.get("discr_ty") != "bool":
            return
        f = [tgt for v, tgt in arms if v == 0]
        ftgt = f[0] if f else None
        truth = True if (other and nxt != ftgt) else (False if nxt == ftgt else None)
        if truth is None:
            return
        refine_terms(st.d, info[0], info[1], info[2], truth)

    # ---------------------------------------------------------------- calls
    def is_arr(self, e):
        e = ds(e)
        return isinstance(e, tuple) and e[:2] == ("param", self.p_arr)

    def subslice(self, st, sl, rng):
        base, lo, hi = sl
        adt, fs = rng
        if any(f is None for f in fs):
            raise Fail("slice range bound not modelled")
        if adt == "std::ops::RangeFrom":
            a = self.plus(st, lo, fs[0])
            self.need(st, "slice-range", st.le(a, hi), "`[%s..]` of a slice ending at %s needs start ≤ len" % (a, hi))
            st.d.add(a[0], hi[0], hi[1] - a[1])
            return (base, a, hi)
        if adt == "std::ops::RangeTo":
            c = self.plus(st, lo, fs[0])
            self.need(st, "slice-range", st.le(c, hi), "`[..%s]` of a slice ending at %s needs end ≤ len" % (c, hi))
            st.d.add(c[0], hi[0], hi[1] - c[1])
            return (base, lo, c)
        if adt == "std::ops::Range":
            a = self.plus(st, lo, fs[0])
            c = self.plus(st, lo, fs[1])
            self.need(st, "slice-range", st.le(a, c) and st.le(c, hi), "`[%s..%s]` of a slice ending at %s needs start ≤ end ≤ len" % (a, c, hi))
            st.d.add(a[0], c[0], c[1] - a[1])
            st.d.add(c[0], hi[0], hi[1] - c[1])
            return (base, a, c)
        if adt == "std::ops::RangeFull":
            return sl
        raise Fail("slice range kind %s not modelled" % adt)

    def call(self, st, bb, t):
        b = self.b
        nm = callee_name(t)
        args = b.call_arg_exprs(bb)
        d = t["dst"]
        dl = d["l"] if not d["p"] else None
        cb = self.prog.local_callee_body(t)
        als = [self.oplocal(a) for a in t["args"]]
        path = (t["callee"].get("path") or "")
        int_dst = dl is not None and dl in self.int_locals
        if dl is not None and not int_dst:
            self.forget_local(st, dl)
        sl0 = st.sl.get(als[0]) if als else None

        # ---- the array
        if nm in ("len", "len_of") and args and self.is_arr(args[0]) and int_dst:
            self.set_int(st, dl, ("N", 0))
            return
        if nm == "index" and len(t["args"]) == 2 and self.is_arr(args[0]):
            pos = self.term(t["args"][1])
            if pos is None:
                raise Fail("array index not modelled")
            self.need(st, "index", st.lt(pos, ("N", 0)), "indexing the array at %s needs %s < len" % (b.where(bb, "term"), pos))
            st.d.add(pos[0], "N", -1 - pos[1])
            st.elem[dl] = pos
            return
        if nm == "clone" and len(t["args"]) == 1 and als[0] in st.elem:
            pos = st.elem[als[0]]
            w = st.fresh("r")
            st.member_relations(w, pos)
            st.facts.add(("pt", pos, ("EQ", w)))
            st.val[dl] = w
            return
        if cb is not None and cb.key == self.partition_key and self.is_arr(args[0]):
            if not int_dst:
                raise Fail("partition result not kept in an integer local")
            pv_t = self.term(t["args"][1]) if len(t["args"]) > 1 else None
            self.need(st, "pivot-in-range", pv_t is not None and st.lt(pv_t, ("N", 0)),
                      "partition_mut at %s needs pivot_index < len (R18 proves it panic-free only then)" % b.where(bb, "term"))
            self.havoc_int(st, dl)
            k = self.name(dl)
            st.d.add(k, "N", -1)
            st.facts = set()
            pv = st.fresh("pv")
            kt = (k, 0)
            st.facts |= {("pt", kt, ("EQ", pv)), ("seg", Z0, kt, ("LT", pv)), ("seg", tadd(kt, 1), ("N", 0), ("GE", pv))}
            return
        if nm in ("view_mut", "reborrow", "view") and args and self.is_arr(args[0]):
            st.subview[dl] = (Z0, ("N", 0))
            return
        # a view of the array that is not the whole array: (lo, hi) positions of the routine's own view
        recv_view = None
        if als and als[0] is not None and als[0] in st.subview and not isinstance(st.subview[als[0]][0], str):
            recv_view = st.subview[als[0]]
        if nm == "split_at" and len(t["args"]) == 3 and (self.is_arr(args[0]) or recv_view is not None):
            # ndarray's split_at(Axis(0), mid) of a 1-D view [lo, hi): ([lo, lo+mid), [lo+mid, hi)); panics unless mid ≤ len
            lo0, hi0 = recv_view if recv_view is not None else (Z0, ("N", 0))
            mid = self.term(t["args"][2])
            if mid is None:
                raise Fail("split point not modelled")
            m = self.plus(st, lo0, mid)
            self.need(st, "split", st.le(m, hi0), "split_at at %s needs mid ≤ len (%s ≤ %s)" % (b.where(bb, "term"), m, hi0))
            st.d.add(m[0], hi0[0], hi0[1] - m[1])
            st.tup[(dl, 0)] = ("view", lo0, m)
            st.tup[(dl, 1)] = ("view", m, hi0)
            return
        if nm in ("slice_axis_mut", "slice_axis_move") and recv_view is not None and not self.is_arr(args[0]) and len(t["args"]) == 3:
            rng = st.subview.get(als[2])
            if rng is None or not isinstance(rng[0], str):
                raise Fail("%s with an unmodelled range" % nm)
            adt, fs = rng
            lo0, hi0 = recv_view
            if not fs or any(f is None for f in fs):
                raise Fail("%s range bound not modelled" % nm)
            ab = [self.plus(st, lo0, f) for f in fs]
            self.need(st, "slice", all(st.le(x_, hi0) for x_ in ab) and (len(ab) < 2 or st.le(ab[0], ab[1])),
                      "%s at %s needs its bounds ≤ len of the sub-view" % (nm, b.where(bb, "term")))
            for x_ in ab:
                st.d.add(x_[0], hi0[0], hi0[1] - x_[1])
            if adt == "std::ops::RangeTo":
                st.subview[dl] = (lo0, ab[0])
                return
            if adt == "std::ops::RangeFrom":
                st.subview[dl] = (ab[0], hi0)
                return
            if adt == "std::ops::Range":
                st.d.add(ab[0][0], ab[1][0], ab[1][1] - ab[0][1])
                st.subview[dl] = (ab[0], ab[1])
                return
            raise Fail("%s range kind not modelled" % nm)
        if nm in ("slice_axis_mut", "slice_axis_move") and self.is_arr(args[0]) and len(t["args"]) == 3:
            rng = st.subview.get(als[2])
            if rng is None or not isinstance(rng[0], str):
                raise Fail("slice_axis_mut with an unmodelled range")
            adt, fs = rng
            if fs and all(f is not None for f in fs):
                self.need(st, "slice", all(st.le(f, ("N", 0)) for f in fs) and (len(fs) < 2 or st.le(fs[0], fs[1])),
                          "slice_axis_mut at %s needs its bounds ≤ len" % b.where(bb, "term"))
            if adt == "std::ops::RangeTo" and fs and fs[0] is not None:
                st.d.add(fs[0][0], "N", -fs[0][1])
                st.subview[dl] = (Z0, fs[0])
                return
            if adt == "std::ops::RangeFrom" and fs and fs[0] is not None:
                st.d.add(fs[0][0], "N", -fs[0][1])
                st.subview[dl] = (fs[0], ("N", 0))
                return
            if adt == "std::ops::Range" and fs and fs[0] is not None and fs[1] is not None:
                st.d.add(fs[0][0], fs[1][0], fs[1][1] - fs[0][1])
                st.d.add(fs[1][0], "N", -fs[1][1])
                st.subview[dl] = (fs[0], fs[1])
                return
            raise Fail("slice_axis_mut range kind not modelled")
        if nm == "from" and len(t["args"]) == 1 and als[0] in st.subview:
            st.subview[dl] = st.subview[als[0]]
            return

        # ---- slices
        if nm == "len" and sl0 is not None and int_dst:
            base, lo, hi = sl0
            if lo[0] == "Z":
                self.set_int(st, dl, (hi[0], hi[1] - lo[1]))
            else:
                self.havoc_int(st, dl)
                st.d.add(self.name(dl), hi[0], hi[1])
                st.lenof[dl] = (lo, hi)
            return
        if nm == "is_empty" and sl0 is not None and dl is not None:
            st.bools[dl] = ("Eq", sl0[2], sl0[1])
            return
        if nm == "binary_search" and sl0 is not None and len(t["args"]) == 2:
            nd = st.refint.get(als[1])
            if nd is None:
                raise Fail("binary_search needle not modelled")
            st.bs[dl] = dict(base=sl0[0], lo=sl0[1], hi=sl0[2], needle=nd, p=None, arm=None)
            return
        if nm in ("is_ok", "is_err") and als and als[0] in st.bs and dl is not None:
            st.bsbool[dl] = (st.bs[als[0]], "Ok" if nm == "is_ok" else "Err")
            return
        if nm in ("unwrap_or_else", "map_or_else", "unwrap_or_default") and als and als[0] in st.bs and int_dst:
            ident = nm == "unwrap_or_else" and len(als) == 2 and self.closure_identity(st, als[1], t["args"][1])
            self.havoc_int(st, dl)
            if ident:
                self.bs_position(st, st.bs[als[0]], (self.name(dl), 0))
            return
        if nm in ("split_at_mut", "split_at") and sl0 is not None and len(t["args"]) == 2:
            mid = self.term(t["args"][1])
            if mid is None:
                raise Fail("split point not modelled")
            base, lo, hi = sl0
            m = self.plus(st, lo, mid)
            self.need(st, "split", st.le(m, hi), "split_at_mut at %s needs mid ≤ len (%s ≤ %s)" % (b.where(bb, "term"), m, hi))
            st.d.add(m[0], hi[0], hi[1] - m[1])                   # panics unless mid ≤ len
            st.tup[(dl, 0)] = ("slice", base, lo, m)
            st.tup[(dl, 1)] = ("slice", base, m, hi)
            return
        if nm in ("index_mut", "index") and sl0 is not None and len(t["args"]) == 2:
            rng = st.subview.get(als[1])
            if rng is not None and isinstance(rng[0], str):
                st.sl[dl] = self.subslice(st, sl0, rng)
                return
            it = self.term(t["args"][1])
            if it is not None:
                pos = self.plus(st, sl0[1], it)
                self.need(st, "slice-index", st.lt(pos, sl0[2]), "slice element %s at %s needs to lie below %s" % (pos, b.where(bb, "term"), sl0[2]))
                st.d.add(pos[0], sl0[2][0], sl0[2][1] - pos[1] - 1)
                st.selem[dl] = (sl0[0], pos)
                return
            raise Fail("slice index not modelled")
        if nm in ("deref_mut", "deref", "as_mut", "as_ref", "borrow_mut", "borrow", "as_mut_slice", "as_slice") and sl0 is not None:
            st.sl[dl] = sl0
            return
        if nm in ("iter_mut",) and sl0 is not None:
            st.itm[dl] = sl0
            return
        if nm == "into_iter" and als and als[0] in st.itm:
            st.itm[dl] = st.itm[als[0]]
            return
        if nm == "into_iter" and sl0 is not None and t["arg_tys"] and t["arg_tys"][0].startswith("&mut "):
            st.itm[dl] = sl0
            return
        if nm == "for_each" and als and als[0] in st.itm and len(t["args"]) == 2:
            base, lo, hi = st.itm[als[0]]
            cl = st.clos.get(als[1])
            lin = self.closure_linear(cl[0]) if cl else None
            by = None
            if lin is not None:
                cx, caps, const = lin
                if cx == 1 and len(caps) <= 1 and all(v == -1 for v in caps.values()) and const <= 0:
                    if caps:
                        ci = list(caps)[0]
                        av = cl[1][ci] if ci < len(cl[1]) else None
                        if av and av[0] in ("refint", "int"):
                            by = (av[1][0], av[1][1] - const)
                    else:
                        by = ("Z", -const)
            self.rebase(st, base, lo, hi, by)
            return

        # ---- the recursive call: induction hypothesis
        if cb is not None and cb.key == self.b.key:
            self.recursive_call(st, t, als)
            return

        if nm == "cmp" and len(t["args"]) == 2 and (t["callee"].get("trait") or "").endswith("cmp::Ord"):
            if als[0] in st.refint and als[1] in st.refint and dl is not None:
                st.ordcmp[dl] = (st.refint[als[0]], st.refint[als[1]])
            return
        if int_dst:
            self.havoc_int(st, dl)
            if nm == "gen_range":
                self.notes.append("pivot index is any value of the requested range (gen_range contract: lo ≤ result < hi, panics on an empty range)")
                rng = st.subview.get(als[1]) if len(als) > 1 else None
                if rng and isinstance(rng[0], str) and rng[0] == "std::ops::Range" and all(f is not None for f in rng[1]):
                    lo_, hi_ = rng[1]
                    self.need(st, "pivot-range", st.lt(lo_, hi_), "gen_range at %s panics on an empty range: needs %s < %s" % (b.where(bb, "term"), lo_, hi_))
                    x = self.name(dl)
                    st.d.add(lo_[0], x, -lo_[1])
                    st.d.add(x, hi_[0], hi_[1] - 1)
                else:
                    self.need(st, "pivot-range", False, "gen_range with an unmodelled range at %s" % b.where(bb, "term"))
            return
        # anything else that receives the array or a tracked slice mutably is not modelled
        for ty, a, al in zip(t["arg_tys"], args, als):
            if ty.startswith("&mut ") and (("ArrayBase" in ty and self.is_arr(a)) or al in st.sl or al in st.itm):
                raise Fail("unmodelled call `%s` receives the array or a tracked slice mutably" % nm)
            if al is not None and al in st.subview and not isinstance(st.subview[al][0], str) and "ArrayBase" in ty:
                raise Fail("unmodelled call `%s` receives a view of the array" % nm)

    def recursive_call(self, st, t, als):
        roles = {}
        for i, al in enumerate(als):
            if al is None:
                continue
            if al in st.subview and not isinstance(st.subview[al][0], str):
                roles["arr"] = st.subview[al]
            elif al in st.sl:
                roles[st.sl[al][0]] = st.sl[al]
        e0 = ds(self.b.call_arg_exprs_of(t)[0]) if hasattr(self.b, "call_arg_exprs_of") else None
        if "arr" not in roles or "I" not in roles or "V" not in roles:
            raise Fail("recursive call with an unmodelled array view / index slice / value slice")
        lo, hi = roles["arr"]
        _, a, c = roles["I"]
        _, a2, c2 = roles["V"]
        if not (st.eq(a, a2) and st.eq(c, c2)):
            raise Fail("recursive call: index slice [%s,%s) and value slice [%s,%s) are not the same positions" % (a, c, a2, c2))
        if not self.sorted_range(st, a, c):
            raise Fail("recursive call: index range not known strictly increasing")
        # in bounds of the sub-view after rebasing by exactly its start: ∀t: I[t] + lo < hi
        if not self.icovers(st, a, c, "LT", hi, None if st.eq(lo, Z0) else lo):
            raise Fail("recursive call: not every passed index is known to lie inside the passed sub-view "
                       "(index + start of sub-view < end of sub-view)")
        # well-founded recursion: the passed sub-view is strictly shorter than the current view
        shorter = (st.le(hi, ("N", 0)) and st.le(("Z", 1), lo)) or (st.le(hi, ("N", -1)) and st.le(Z0, lo))
        self.term_obs.append((bool(shorter) or st.d.bottom, "sub-view [%s, %s) of a view of length N" % (lo, hi)))
        T = ("T", 0)
        J = ("J", 0)
        inside = st.le(a, T) and st.lt(T, c)
        outside = st.lt(T, a) or st.le(c, T)
        # effect on the array
        w = st.fresh("w")
        if inside:
            if not st.jknown:
                raise Fail("recursive call: the representative's index was overwritten before the call")
            if not ((st.shiftT is None and st.eq(lo, Z0)) or (st.shiftT is not None and st.eq(st.shiftT, lo))):
                raise Fail("recursive call: indexes rebased by %s but the sub-view starts at %s" % (st.shiftT, lo))
            st.d.add(lo[0], "J", -lo[1])
            st.d.add("J", hi[0], hi[1] - 1)
            st.member_relations(w, lo, hi)
        elif not outside:
            raise Fail("recursive call: whether the representative is among the passed indexes is undecided")
        nf = set()
        for f in st.facts:
            if f[0] == "seg":
                if (st.le(f[1], lo) and st.le(hi, f[2])) or st.le(f[2], lo) or st.le(hi, f[1]):
                    nf.add(f)
            else:
                if st.lt(f[1], lo) or st.le(hi, f[1]):
                    nf.add(f)
        st.facts = nf
        if inside:
            st.facts |= {("pt", J, ("EQ", w)), ("seg", lo, J, ("LE", w)), ("seg", tadd(J, 1), hi, ("GE", w))}
            st.vT = w
        # the passed index range is scratch space afterwards
        self.havoc_I(st, a, c)

    # ---------------------------------------------------------------- paths
    def run_path(self, pi, tcase):
        b = self.b
        self.tcase = tcase
        d = DBM(self.vars)
        for l in self.int_locals:
            if 1 <= l <= b.arg_count:
                d.add("Z", self.name(l), 0)
                d.add(self.name(l), "Z", USIZE_MAX)
        d.add("Z", "N", 0)
        d.add("N", "Z", LEN_MAX)
        d.add("Z", "M", 0)
        d.add("M", "N", 0)            # strictly increasing and in bounds ⇒ at most N indexes
        if tcase == "empty":
            # the empty request (also an in-range call): no representative position exists; only the panic-freedom requirements
            # collected on the way are of interest
            d.add("M", "Z", 0)
            d.add("T", "Z", -1)
            d.add("J", "Z", -1)
        else:
            d.add("Z", "T", 0)
            d.add("T", "M", -1)
            d.add("T", "J", 0)            # strictly increasing unsigned ⇒ indexes[t] ≥ t
            d.add("J", "N", -1)
        st = BState(d)
        M = ("M", 0)
        st.sl[self.p_idx] = ("I", Z0, M)
        st.sl[self.p_val] = ("V", Z0, M)
        st.isorted = {(Z0, M)}
        st.ifacts = {(Z0, M, "LT", ("N", 0), None)}
        blocks = list(pi.blocks)
        for idx, bb in enumerate(blocks):
            nxt = blocks[idx + 1] if idx + 1 < len(blocks) else None
            blk = b.blocks[bb]
            if bb in self.loops:
                for s in blk["stmts"]:
                    if s["k"] == "assign" and not (s["rv"]["k"] == "ref" and s["rv"].get("mut")):
                        self.assign(st, s["dst"], s["rv"])
                self.apply_loop(st, self.loops[bb])
                continue
            for s in blk["stmts"]:
                if s["k"] == "assign":
                    self.assign(st, s["dst"], s["rv"])
            t = blk["term"]
            if t["k"] == "assert":
                cl = self.oplocal(t["cond"])
                pl = t["cond"].get("pl")
                pend = None
                if pl and len(pl["p"]) == 1 and isinstance(pl["p"][0], dict) and pl["p"][0].get("field") == 1:
                    pend = st.pending.get(pl["l"])
                if pend:
                    op, a, c = pend
                    if a and c and op == "Sub":
                        self.need(st, "overflow", st.le(c, a), "`%s − %s` must not wrap (%s)" % (a, c, b.where(bb, "term")))
                        st.d.add(c[0], a[0], a[1] - c[1])          # a − c ≥ 0
                    elif a and c and op == "Add":
                        tot = (a[0], a[1] + c[1]) if c[0] == "Z" else ((c[0], a[1] + c[1]) if a[0] == "Z" else None)
                        self.need(st, "overflow", tot is not None and st.le(tot, ("Z", USIZE_MAX)), "`%s + %s` must not exceed usize::MAX (%s)" % (a, c, b.where(bb, "term")))
                    else:
                        self.need(st, "overflow", False, "unmodelled overflow check (%s)" % b.where(bb, "term"))
                elif cl is not None and cl in st.bools:
                    op, a, c = st.bools[cl]
                    exp = bool(t.get("expected", True))
                    self.need(st, "assert", refuted(st.d, op, a, c, not exp), "assert `%s %s %s` (%s)" % (a, op, c, b.where(bb, "term")))
                    refine_terms(st.d, op, a, c, exp)
                else:
                    self.need(st, "assert", False, "unmodelled assert (%s)" % b.where(bb, "term"))
            elif t["k"] == "call":
                self.call(st, bb, t)
            elif t["k"] == "switch" and nxt is not None:
                self.diverging_edges(st, bb, t)
                self.switch(st, t, nxt)
            if st.d.bottom:
                return ("infeasible", st.case_used)
        return st

    def diverging_edges(self, st, bb, t):
        """every successor of this switch from which no return is reachable (a panic) must be excluded by the current state"""
        b = self.b
        dsc = t["discr"]
        dl = dsc["pl"]["l"] if dsc["k"] in ("move", "copy") and not dsc["pl"]["p"] else None
        info = st.bools.get(dl)
        f = [tgt for v, tgt in t["arms"] if v == 0]
        ftgt = f[0] if f else None
        for s_ in b.succ(bb):
            if b.term(s_)["k"] == "unreachable" or b.can_reach_return(s_):
                continue
            ok = False
            if dl in st.bconst:
                v = st.bconst[dl]
                tgt = t["otherwise"]
                for val, tg in t["arms"]:
                    if val == v:
                        tgt = tg
                ok = tgt != s_
            elif info is not None and t.get("discr_ty") == "bool":
                truth = False if s_ == ftgt else True
                ok = refuted(st.d, info[0], info[1], info[2], truth)
            self.need(st, "diverging-branch", ok, "the branch at %s into a block that cannot return (an assertion failure) is not excluded when the precondition holds" % b.where(bb, "term"))

    def prove(self):
        self.loops = self.find_map_loops()
        paths = enumerate_paths(self.b, loop_exits={h: lp["exit"] for h, lp in self.loops.items()})
        results = []
        for pi in paths:
            for tcase in ("lt", "eq", "gt"):
                try:
                    st = self.run_path(pi, tcase)
                except Fail as ex:
                    results.append(dict(blocks=list(pi.blocks), case=tcase, ok=False, why=str(ex)))
                    break
                if isinstance(st, tuple):
                    # a path that is infeasible before any case split is infeasible for all cases
                    if not st[1]:
                        break
                    continue
                J = ("J", 0)
                why = ""
                if st.vT is None:
                    ok = False
                    why = "values[t] is not written with a tracked element value on this path"
                else:
                    e = st.holds_at(J, ("EQ", st.vT))
                    l = st.covers(Z0, J, ("LE", st.vT))
                    r = st.covers(tadd(J, 1), ("N", 0), ("GE", st.vT))
                    ok = e and l and r
                    if not ok:
                        why = "postcondition not established: array[j]=w %s, left≤w %s, right≥w %s" % (e, l, r)
                results.append(dict(blocks=list(pi.blocks), case=tcase if st.case_used else "-", ok=ok, why=why))
                if not st.case_used:
                    break
            # the same path under an empty request: nothing to establish, but it must not panic (requirements go to panic_obs)
            try:
                st = self.run_path(pi, "empty")
                if not isinstance(st, tuple):
                    results.append(dict(blocks=list(pi.blocks), case="empty", ok=True, why=""))
            except Fail as ex:
                results.append(dict(blocks=list(pi.blocks), case="empty", ok=False, why="empty request: %s" % ex))
        return results
