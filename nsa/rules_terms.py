"""R19 TERMS, R17 EDGE-AGREE, R13 KERNEL-EQ, R10 ZEROBRANCH (DESIGN.md §4 C06, C07, C09, C10, C12, C18) on top of Engine D."""
from .facts import callee_name, ds, fmt, strip, walk
from .rules_layout import producer_chain, short, up
from .rules_unsafe import branch_dominates
from . import terms as T
from .terms import Unrecognised, Kernel, closure_terms, sympy_equal, show, canon_op, subst_t


def closure_of(prog, e):
    e = ds(e)
    if isinstance(e, tuple) and e[0] == "agg" and e[1] == "closure":
        return prog.bodies[e[2]], e[3]
    return None, None


def unwrap_try(e):
    """x? / x.unwrap() / x.expect() → x"""
    e = ds(e)
    for _ in range(6):
        if isinstance(e, tuple) and e[0] == "field" and e[2] == "0" and isinstance(e[1], tuple) and e[1][0] == "downcast" \
                and e[1][2] in ("Continue", "Ok", "Some"):
            inner = e[1][1]
            if isinstance(inner, tuple) and inner[0] == "call" and inner[1] == "branch":
                inner = inner[3][0]
            e = inner
            continue
        if isinstance(e, tuple) and e[0] == "call" and e[1] in ("unwrap", "expect") and e[3]:
            e = e[3][0]
            continue
        break
    return e


class Recorder:
    """collects sympy questions so that one bridge call answers all of them"""

    def __init__(self, ctx, rule):
        self.ctx = ctx
        self.rule = rule
        self.q = []   # (key, where, a, b, ok_detail, what)

    def equal(self, key, where, impl, spec, what, label):
        self.q.append((key, where, impl, spec, what, label))

    def flush(self):
        if not self.q:
            return
        try:
            res = sympy_equal([(a, b) for _, _, a, b, _, _ in self.q])
        except Unrecognised as ex:
            for key, where, a, b, what, label in self.q:
                self.ctx.ob(self.rule, key, False, where, "anchor not recognised: %s" % ex, what="anchor not recognised")
            self.q = []
            return
        for (key, where, a, b, what, label), r in zip(self.q, res):
            ok = r.get("equal", False)
            self.ctx.ob(self.rule, key, ok, where,
                        ("%s: extracted `%s` ≡ `%s`" % (label, r.get("a"), r.get("b"))) if ok else
                        ("%s: the code computes `%s`, the definition is `%s` (difference %s%s)"
                         % (label, r.get("a", show(a)), r.get("b", show(b)), r.get("diff"), (" " + r["error"]) if "error" in r else "")),
                        what=what)
        self.q = []


def unrec(ctx, rule, key, where, ex):
    ctx.ob(rule, key, False, where, "anchor not recognised: %s" % ex, what="anchor not recognised")


# ======================================================================================= Zip … for_each kernels

def zip_foreach(prog, root):
    """the `Zip::from(p0).and(p1)….for_each(closure)` of a routine → (call bb, [producer exprs], closure body, upvar exprs)"""
    for bb, t in root.calls():
        if callee_name(t) == "for_each" and (t["callee"].get("path") or "").startswith("ndarray::Zip"):
            args = root.call_arg_exprs(bb)
            z = ds(args[0])
            prods = []
            while isinstance(z, tuple) and z[0] == "call" and z[1] in ("and", "from"):
                if z[1] == "and":
                    prods.append(z[3][1])
                    z = ds(z[3][0])
                else:
                    prods.append(z[3][0])
                    break
            prods.reverse()
            cb, ups = closure_of(prog, args[1])
            return bb, prods, cb, ups
    return None


def captured_local(root, bb_call, ups, idx):
    """the parent's local captured by `&mut` as upvar idx of the closure passed at bb_call, with its value before"""
    e = ups[idx]
    return e


def deviation_kernel(prog, name):
    """→ dict(init, update (T-term in ACC, a, b), producers ok, root, closure)"""
    root = prog.method("DeviationExt", name)
    zf = zip_foreach(prog, root)
    if zf is None:
        raise Unrecognised("no Zip::from(self).and(other).for_each(..) in %s" % name)
    bb, prods, cb, ups = zf
    if len(prods) != 2:
        raise Unrecognised("%d producers" % len(prods))
    p_ok = ds(prods[0])[:2] == ("param", 1) and ds(prods[1])[:2] == ("param", 2)
    syms = {2: ("sym", "a"), 3: ("sym", "b")}
    ret, updates = closure_terms(prog, cb, syms, upvar_leaf=lambda e: ("sym", "ACC"))
    if len(updates) != 1:
        raise Unrecognised("%d captured accumulators" % len(updates))
    (u, upd), = updates.items()
    init_e = ds(ups[u])
    K = Kernel(prog, root, lambda e: None)
    init = K.term(init_e)
    # the value returned: Ok(accumulator variable)
    return dict(root=root, closure=cb, producers_ok=p_ok, update=upd, init=init, bb=bb, upvar=u, ups=ups)


def inc_of(update):
    """update = ACC + x (or x + ACC) → x"""
    if update[0] == "add":
        if update[1] == ("sym", "ACC"):
            return update[2]
        if update[2] == ("sym", "ACC"):
            return update[1]
    return None


def rule_c09_terms(ctx, prog, rule="R19"):
    rec = Recorder(ctx, rule)
    a, b = ("real", "a"), ("real", "b")
    real = {"a": a, "b": b}
    specs = {
        "sq_l2_dist": ("pow", ("sub", a, b), 2),
        "l1_dist": ("fn", "abs", ("sub", a, b)),
    }
    for name, spec in specs.items():
        try:
            k = deviation_kernel(prog, name)
        except Unrecognised as ex:
            unrec(ctx, rule, "%s/kernel" % name, "", ex)
            continue
        w = k["root"].where()
        ctx.ob(rule, "%s/producers" % name, k["producers_ok"], w, "Zip::from(self).and(other)" if k["producers_ok"] else
               "the two Zip producers are not (self, other)", what="operands not paired as (self, other)")
        ctx.ob(rule, "%s/init" % name, k["init"] == ("num", 0), w, "accumulator starts at zero()", what="accumulator does not start at 0")
        inc = inc_of(k["update"])
        if inc is None:
            ctx.ob(rule, "%s/accumulates" % name, False, w, "update is `%s`, not ACC + term" % show(k["update"]), what="not a plain sum")
            continue
        inc = subst_t(inc, real)
        rec.equal("%s/term" % name, w, inc, spec, "kernel term differs from the definition", "Σ term of %s" % name)
        rec.equal("%s/symmetric" % name, w, inc, _swap(inc), "distance not symmetric", "term under a↔b")
        rec.equal("%s/zero-on-equal" % name, w, _subst_real(inc, "b", a), ("num", 0), "distance of identical arrays not 0", "term at b = a")
    # linf: running maximum of |a-b| from zero with strict >
    try:
        k = deviation_kernel(prog, "linf_dist")
        w = k["root"].where()
        upd = k["update"]
        ok_shape = upd[0] == "ite" and upd[3] == ("keep",) and upd[1][0] == "cmp"
        ctx.ob(rule, "linf_dist/running-max", ok_shape and upd[1][1] in (">", ">=") and upd[1][3] == ("sym", "ACC") and upd[1][2] == upd[2],
               w, "max ← |a−b| iff |a−b| > max, else unchanged" if ok_shape else "update is `%s`" % show(upd), what="not a running maximum")
        ctx.ob(rule, "linf_dist/init", k["init"] == ("num", 0), w, "starts at zero()", what="maximum does not start at 0")
        ctx.ob(rule, "linf_dist/producers", k["producers_ok"], w, "Zip::from(self).and(other)", what="operands not paired as (self, other)")
        if ok_shape:
            cand = subst_t(upd[2], real)
            rec.equal("linf_dist/term", w, cand, ("fn", "abs", ("sub", a, b)), "candidate is not |a−b|", "candidate of linf_dist")
            rec.equal("linf_dist/symmetric", w, cand, _swap(cand), "distance not symmetric", "candidate under a↔b")
    except Unrecognised as ex:
        unrec(ctx, rule, "linf_dist/kernel", "", ex)
    # count_eq: +1 exactly on a == b
    try:
        k = deviation_kernel(prog, "count_eq")
        w = k["root"].where()
        upd = k["update"]
        ok = upd[0] == "ite" and upd[1] == ("cmp", "==", ("sym", "a"), ("sym", "b")) and upd[3] == ("keep",) and \
            inc_of(upd[2]) == ("num", 1)
        ok = ok or (upd[0] == "ite" and upd[1] == ("cmp", "==", ("sym", "b"), ("sym", "a")) and upd[3] == ("keep",) and inc_of(upd[2]) == ("num", 1))
        ctx.ob(rule, "count_eq/increment", ok, w, "count += 1 exactly when a == b" if ok else "update is `%s`" % show(upd),
               what="count_eq does not count equal positions")
        ctx.ob(rule, "count_eq/init", k["init"] == ("num", 0), w, "starts at 0", what="count does not start at 0")
        ctx.ob(rule, "count_eq/producers", k["producers_ok"], w, "Zip::from(self).and(other)", what="operands not paired as (self, other)")
    except Unrecognised as ex:
        # alternative idiom: iter().zip().filter(eq).count()
        root = prog.method("DeviationExt", "count_eq")
        ok = False
        for bb, t in root.calls():
            if callee_name(t) == "count":
                f = ds(root.call_arg_exprs(bb)[0])
                if isinstance(f, tuple) and f[0] == "call" and f[1] == "filter":
                    cb, ups = closure_of(prog, f[3][1])
                    z = ds(f[3][0])
                    if cb is not None and z[0] == "call" and z[1] == "zip":
                        r0 = producer_chain(prog, root, z[3][0])
                        r1 = producer_chain(prog, root, z[3][1])
                        cr = ds(cb.return_expr())
                        ok = r0[3] is None and r1[3] is None and ds(r0[1])[:2] == ("param", 1) and ds(r1[1])[:2] == ("param", 2) \
                            and isinstance(cr, tuple) and cr[0] == "call" and cr[1] == "eq"
        ctx.ob(rule, "count_eq/increment", ok, root.where(), "counts the pairs with a == b (iterator idiom)" if ok else
               "anchor not recognised: %s" % ex, what="anchor not recognised")
    # derived measures
    derived_specs = {
        "l2_dist": ("fn", "sqrt", ("sym", "sq_l2_dist")),
        "mean_abs_err": ("div", ("sym", "l1_dist"), ("sym", "N")),
        "mean_sq_err": ("div", ("sym", "sq_l2_dist"), ("sym", "N")),
        "root_mean_sq_err": ("fn", "sqrt", ("sym", "mean_sq_err")),
        "peak_signal_to_noise_ratio": ("mul", ("num", 10), ("fn", "log10", ("div", ("pow", ("sym", "maxv"), 2), ("sym", "mean_sq_err")))),
    }
    for name, spec in derived_specs.items():
        root = prog.method("DeviationExt", name)
        try:
            t = routine_value(prog, root)
            rec.equal("%s/formula" % name, root.where(), t, spec, "derived measure is not the documented function", name)
        except Unrecognised as ex:
            unrec(ctx, rule, "%s/formula" % name, root.where(), ex)
    # count_neq = len − count_eq
    root = prog.method("DeviationExt", "count_neq")
    try:
        r = ds(root.return_expr())
        ok = False
        if r[0] == "call" and r[1] == "map":
            cb, ups = closure_of(prog, r[3][1])
            K = Kernel(prog, cb, _leaf_for(prog, cb, {2: ("sym", "n_eq")}))
            t = K.term(cb.return_expr())
            ok = t == ("sub", ("sym", "N"), ("sym", "n_eq"))
        ctx.ob(rule, "count_neq/formula", ok, root.where(), "= len(self) − count_eq" if ok else "count_neq is `%s`" % fmt(r)[:120],
               what="count_neq is not len − count_eq")
    except Unrecognised as ex:
        unrec(ctx, rule, "count_neq/formula", root.where(), ex)
    rec.flush()


def _swap(t):
    return _swap_real(t)


def _swap_real(t):
    if not isinstance(t, tuple):
        return t
    if t == ("real", "a"):
        return ("real", "b")
    if t == ("real", "b"):
        return ("real", "a")
    return tuple(_swap_real(x) if isinstance(x, tuple) else x for x in t)


def _subst_real(t, name, val):
    if not isinstance(t, tuple):
        return t
    if t == ("real", name):
        return val
    return tuple(_subst_real(x, name, val) if isinstance(x, tuple) else x for x in t)


def _leaf_for(prog, body, param_syms, extra=None):
    """leaf resolver for scalar formulas of a routine: params by table, len(self) → N, delegate calls → their name,
    upvars resolved in the parent"""
    def leaf(e):
        if isinstance(e, tuple) and e[0] == "param" and e[1] in param_syms:
            return param_syms[e[1]]
        if isinstance(e, tuple) and e[0] == "upvar":
            pb, pe = up(prog, body, e)
            pe = ds(pe)
            if isinstance(pe, tuple) and pe[0] == "param":
                nm = pb.local_name(pe[1]) or "p%d" % pe[1]
                return ("sym", nm)
            if extra:
                r = extra(pb, pe)
                if r is not None:
                    return r
            return _leaf_for(prog, pb, {}, extra)(pe)
        if isinstance(e, tuple) and e[0] == "call":
            if e[1] == "len" and e[3]:
                pb, pe = up(prog, body, e[3][0])
                if ds(pe)[:2] == ("param", 1) and not pb.is_closure:
                    return ("sym", "N")
        u = unwrap_try(e)
        if u is not e and isinstance(u, tuple) and u[0] == "call" and (u[2].startswith("deviation::") or u[2].startswith("summary_statistics::")
                                                                     or u[2].startswith("entropy::") or u[2].startswith("quantile::")):
            return ("sym", u[1])
        if isinstance(e, tuple) and e[0] == "cast" and "IntToFloat" in e[1]:
            return None
        if extra:
            return extra(body, e)
        return None
    return leaf


def routine_value(prog, root, param_syms=None, extra=None):
    """T-term of the Ok(..) value a routine returns on its success path (single success definition)"""
    ps = dict(param_syms or {})
    for l in range(2, root.arg_count + 1):
        ps.setdefault(l, ("sym", root.local_name(l) or "p%d" % l))
    tb = prog.tracked(root)
    ex = tb.exits()
    finals = []
    for d in tb.reaching_defs(0, ex[0], "term"):
        e = ds(tb.def_expr(0, d))
        if isinstance(e, tuple) and e[0] == "agg" and e[1] == "std::result::Result" and e[2] == "Ok":
            finals.append(e[3][0])
        elif isinstance(e, tuple) and e[0] == "call" and e[1] not in ("from_residual",):
            finals.append(e)
    if len(finals) != 1:
        raise Unrecognised("%d success values" % len(finals))
    K = Kernel(prog, tb, _leaf_for(prog, tb, ps, extra))
    return K.term(finals[0])


# ======================================================================================= C10 entropy family

def entropy_kernels(prog):
    """→ {name: (ite term over element symbols, root, ln dominance ok)}"""
    out = {}
    # entropy: -sum(mapv(self, closure))
    root = prog.method("EntropyExt", "entropy")
    tb = prog.tracked(root)
    val = None
    for bb, t in tb.calls():
        if callee_name(t) == "neg":
            s = ds(tb.call_arg_exprs(bb)[0])
            if s[0] == "call" and s[1] == "sum":
                m = ds(s[3][0])
                if m[0] == "call" and m[1] in ("mapv", "map") and ds(m[3][0])[:2] == ("param", 1):
                    cb, ups = closure_of(prog, m[3][1])
                    ret, upd = closure_terms(prog, cb, {2: ("sym", "x")})
                    val = ("neg", ret)
                    out["entropy"] = dict(term=ret, root=root, closure=cb, negated=True, producers_ok=True)
    for name in ("kl_divergence", "cross_entropy"):
        root = prog.method("EntropyExt", name)
        zf = zip_foreach(prog, root)
        if zf is None:
            continue
        bb, prods, cb, ups = zf
        if len(prods) != 3:
            continue
        # closure params: result (&mut A), p, q ;  `*result = term`
        tb = prog.tracked(cb)
        K, tbc, paths, results, upd_sites = T.closure_function(prog, cb, {3: ("sym", "p"), 4: ("sym", "q")})
        # stores through param 2
        items = []
        stores = []
        for (sbb, si, d) in tbc.stores():
            base = ds(tbc.local_expr(d["l"], sbb, si))
            if isinstance(base, tuple) and base[:2] == ("param", 2):
                s = tbc.blocks[sbb]["stmts"][si]
                stores.append((sbb, tbc.rvalue_expr(s["rv"], sbb, si)))
        for pi in paths:
            blks = set(pi.blocks)
            here = [s for s in stores if s[0] in blks]
            if len(here) != 1:
                raise Unrecognised("%s: %d stores to the result element on one path" % (name, len(here)))
            items.append((pi[0], K.term(T.resolve_phi(tbc, here[0][1], pi.blocks))))
        term = T.decision_tree(K, tbc, items)
        temp = ds(prods[0])
        fresh = isinstance(temp, tuple) and temp[0] == "call" and temp[1] == "zeros" and ds(temp[3][0])[0] == "call" and \
            ds(temp[3][0])[1] == "raw_dim" and ds(ds(temp[3][0])[3][0])[:2] == ("param", 1)
        p_ok = fresh and ds(prods[1])[:2] == ("param", 1) and ds(prods[2])[:2] == ("param", 2)
        # result = -sum(temp)
        r = ds(root.return_expr())
        negsum = False
        for cbb, ct in root.calls():
            if callee_name(ct) == "neg":
                s = ds(root.call_arg_exprs(cbb)[0])
                if s[0] == "call" and s[1] == "sum" and ds(s[3][0]) == temp:
                    negsum = True
        out[name] = dict(term=term, root=root, closure=cb, negated=negsum, producers_ok=p_ok)
    return out


def rule_c10(ctx, prog, rule="R19"):
    rec = Recorder(ctx, rule)
    try:
        ks = entropy_kernels(prog)
    except Unrecognised as ex:
        unrec(ctx, rule, "entropy-family/kernels", "", ex)
        return
    x, p, q = ("sym", "x"), ("sym", "p"), ("sym", "q")
    specs = {
        "entropy": (x, ("mul", x, ("fn", "ln", x))),
        "cross_entropy": (p, ("mul", p, ("fn", "ln", q))),
        "kl_divergence": (p, ("mul", p, ("fn", "ln", ("div", q, p)))),
    }
    got = {}
    for name, (mult, body_spec) in specs.items():
        k = ks.get(name)
        if k is None:
            ctx.ob(rule, "%s/kernel" % name, False, "", "anchor not recognised: no kernel extracted", what="anchor not recognised")
            continue
        w = k["root"].where()
        t = k["term"]
        ctx.ob(rule, "%s/producers" % name, k["producers_ok"], w, "operands paired in the documented order (temp, self, q)"
               if k["producers_ok"] else "Zip producers are not (fresh temp of self's shape, self, q)", what="operands mispaired")
        ctx.ob(rule, "%s/negated-sum" % name, k["negated"], w, "result = −Σ term" if k["negated"] else "result is not the negated sum of the terms",
               what="not a negated sum")
        # R10: explicit zero branch on the multiplicand
        zb = t[0] == "ite" and t[1][0] == "cmp" and t[1][1] == "==" and \
            ((t[1][2] == mult and t[1][3] == ("num", 0)) or (t[1][3] == mult and t[1][2] == ("num", 0))) and t[2] == ("num", 0)
        ctx.ob("R10", "%s/zero-branch" % name, zb, w,
               "term is `if %s == 0 {0} else {…}`" % show(mult) if zb else
               "no explicit `%s == 0 ⇒ 0` branch around the logarithm: a zero entry yields 0·ln 0 = NaN (term `%s`)" % (show(mult), show(t)),
               what="zero entries not contributing exactly zero")
        if zb:
            got[name] = t[3]
            rec.equal("%s/term" % name, w, t[3], body_spec, "kernel term differs from the definition", "non-zero branch of %s" % name)
        # ln calls dominated by the false edge of the zero test (MIR-level)
        cb = k["closure"]
        lns = [bb for bb, ct in cb.calls() if callee_name(ct) == "ln"]
        dom = bool(lns)
        for lb in lns:
            good = False
            for sb in cb.live_blocks():
                st = cb.term(sb)
                if st["k"] == "switch":
                    de = ds(cb.switch_discr_expr(sb))
                    if isinstance(de, tuple) and de[0] == "call" and de[1] == "eq":
                        f = [tgt for v, tgt in st["arms"] if v == 0]
                        if f and branch_dominates(cb, sb, f[0], lb):
                            good = True
            dom = dom and good
        ctx.ob("R10", "%s/ln-dominated" % name, dom, cb.where(), "every ln is dominated by the `!= 0` edge (%d site)" % len(lns) if dom else
               "a ln call is reachable when the multiplicand is zero", what="ln reachable on zero input")
    # identities on the extracted terms
    if "kl_divergence" in got:
        rec.equal("identity/KL(p,p)=0", "", subst_t(got["kl_divergence"], {"q": p}), ("num", 0), "KL(p,p) is not 0", "KL term at q = p")
    if set(got) == {"entropy", "cross_entropy", "kl_divergence"}:
        hp = subst_t(got["entropy"], {"x": p})
        rec.equal("identity/H(p,q)=H(p)+KL(p,q)", "", got["cross_entropy"], _h_identity(hp, got["kl_divergence"]),
                  "H(p,q) ≠ H(p) + KL(p,q) termwise", "cross-entropy term")
    rec.flush()


def _h_identity(hp_term, kl_term):
    # results are −Σ of the terms:  −ce = −hp − kl  ⇔ ce = hp + kl   (termwise, non-zero branch)
    return ("add", hp_term, kl_term)
